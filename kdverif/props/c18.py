"""C18 - collator pipeline keeps the batch layout and context contract (DESIGN §4 C18)."""
from __future__ import annotations

import ast
from typing import Dict, List, Optional, Set, Tuple

from ..core import Report
from ..fa import FA, fa_of
from ..model import Program
from ..rules import names
from ..sym import Poly, Term, contains, leaves, negate, show, subterms, term_to_poly

FILES = ["kappadata/collators/base/kd_collator_base.py", "kappadata/collators/base/kd_compose_collator.py",
         "kappadata/collators/base/kd_single_collator.py", "kappadata/collators/base/kd_single_collator_wrapper.py",
         "kappadata/collators/pad_sequences_collator.py"]


def _flat_and(t: Term) -> List[Term]:
    if t[0] == "and":
        out = []
        for x in t[1]:
            out += _flat_and(x)
        return out
    return [t]


def _neg_flags(conds: List[Term]) -> Set[str]:
    """Locals F for which 'not F' holds at the node (from if-tests and asserts)."""
    out = set()
    for c in conds:
        for x in _flat_and(c):
            if x[0] == "not" and x[1][0] == "var" and "." not in x[1][1]:
                out.add(x[1][1])
            if x[0] == "not" and x[1][0] == "const":
                pass
    return out


def run(prog: Program, rep: Report, tier: str):
    rep.trusted += ["torch.utils.data.default_collate / torch.nn.utils.rnn.pad_sequence behave as documented",
                    "in-package collate implementations write into the ctx dict they are given and return the batch"]
    rep.not_decided += ["contents of the merged context (keys, values)", "padded values / shapes as tensor facts"]
    call_impl(prog, rep)
    collate_callers(prog, rep)
    pad_sequences(prog, rep)
    pad_dispatch(prog, rep)
    pad_stateless(prog, rep)
    compose_config(prog, rep)
    names.check(prog, rep, FILES, clause="C18.G1", floor=15)


def call_impl(prog: Program, rep: Report):
    fi = prog.method("KDCollatorBase", "_call_impl", own=True)
    fa = fa_of(prog, fi)
    cfg = fa.cfg
    rep.analysed_add("functions", f"{fi.module.relpath}:{fi.qualname}")
    rep.rule("G8.collate-once", "typestate of the collator pipeline: _call_impl's loop body is interpreted over its boolean flags for "
             "every collate mode (None / 'before' / 'after'), return_ctx setting and reachable flag state; over every sequence of "
             "collators that the asserts admit, default_collate(batch) runs at most once, a 'before' collator sees a collated "
             "batch, a None / 'after' collator an uncollated one, and an 'after' collator is followed by the collation")
    rep.rule("G8.ctx-split-once", "same model: with return_ctx the context is split off the batch exactly once, before the first "
             "collator runs, by tuple unpacking if the batch is collated at that moment and by zip(*batch) + default_collate(ctx) "
             "if it is not; without return_ctx it is never split")
    rep.rule("G9.return-shape", "_call_impl returns (batch, ctx) exactly on the paths with return_ctx true and the bare batch "
             "otherwise")
    bvar = fi.params()[0] if fi.is_static else fi.params()[1]
    loops = [n for n, nd in cfg.nodes.items() if nd.kind == "next"]
    rep.require(loops, "anchor-missing: loop over the collators in _call_impl")
    LN = loops[0]

    def is_batch(t: Term) -> bool:
        return t == ("param", bvar) or (t[0] == "var" and t[1] == bvar)

    sites = []
    for n, c in fa.calls():
        t = fa.sym.term(c, n)
        if t[1][0] == "global" and t[1][1].endswith("default_collate") and len(c.args) == 1 and isinstance(
                c.args[0], ast.Name) and c.args[0].id == bvar:
            sites.append((n, c))
    rep.require(sites, "anchor-missing: default_collate(batch) in _call_impl")
    _pipeline_model(rep, fa, fi, bvar, LN)
    # ---- return shape ------------------------------------------------------------------------------------------------------
    rets = fa.returns()
    ok = bool(rets)
    for n, t in rets:
        under = any(c == ("param", "return_ctx") for c in fa.conds_at(n))
        not_under = any(c == ("not", ("param", "return_ctx")) for c in fa.conds_at(n))
        pair = t is not None and t[0] == "tuple" and len(t[1]) == 2 and is_batch(t[1][0]) and t[1][1][:2] in (
            ("var", "ctx"),) or (t is not None and t[0] == "tuple" and len(t[1]) == 2 and is_batch(t[1][0]))
        bare = t is not None and is_batch(t)
        if not ((under and pair and not bare) or (not_under and bare)):
            ok = False
    rep.decide(ok, "G9.return-shape", fi, "returns", "(batch, ctx) iff return_ctx",
               "a return hands back the pair without return_ctx, or the bare batch with it", clause="C18.2")
    # the wrapper around a single collator: same contract, the flag lives on the instance
    W = prog.cls("KDSingleCollatorWrapper", required=False)
    wc = W.methods.get("__call__") if W is not None else None
    if wc is not None:
        wa = fa_of(prog, wc)
        rep.analysed_add("functions", f"{wc.module.relpath}:{wc.qualname}")
        flag = ("self", "return_ctx")
        okw = None
        why = "the returns of KDSingleCollatorWrapper.__call__ are not selected by self.return_ctx alone: not decided"
        rets_w = wa.returns()
        if rets_w and all(t_ is not None for _, t_ in rets_w):
            okw = True
            for n_, t_ in rets_w:
                cs = wa.conds_at(n_)
                pair_ = t_[0] == "tuple" and len(t_[1]) == 2
                if flag in cs and pair_:
                    continue
                if ("not", flag) in cs and not pair_:
                    continue
                if any(c_ not in (flag, ("not", flag)) and contains(c_, flag) for c_ in cs):
                    okw = False
                    why = (f"the return at line {wa.line(n_)} is selected by {show([c_ for c_ in cs if contains(c_, flag)][0])[:60]}, "
                           f"not by the truth of self.return_ctx: with return_ctx=False the pair is returned as well")
                    break
                okw = False if (flag in cs) != pair_ and (flag in cs or ("not", flag) in cs) else None
                why = (f"the return at line {wa.line(n_)} hands back {'the pair' if pair_ else 'the bare batch'} on the "
                       f"{'return_ctx' if flag in cs else 'not return_ctx'} path") if okw is False else why
                if okw is not True:
                    break
        rep.decide(okw, "G9.return-shape", wc, "wrapper-returns", "(batch, ctx) iff self.return_ctx", why, clause="C18.2")


class _Unknown(Exception):
    pass


def _pipeline_model(rep: Report, fa: FA, fi: FuncInfo, bvar: str, LN: int):
    """Abstract interpretation of the collator loop over (flags, mode, return_ctx) -> events; then a reachability search over the
    finite state space checks the typestate properties of the rules G8.collate-once / G8.ctx-split-once."""
    cfg = fa.cfg
    loop = cfg.nodes[LN].owner
    cvar = loop.target.id if isinstance(loop.target, ast.Name) else None
    body_entry = cfg.out_edge(LN, True)
    exit_edge = cfg.out_edge(LN, False)
    ps = fi.params()
    ctx_param = "return_ctx" if "return_ctx" in ps else None
    if cvar is None or body_entry is None or ctx_param is None:
        rep.unk("G8.collate-once", fi, "pipeline", "loop over the collators of unrecognised shape", clause="C18.1")
        return
    MODES = (None, "before", "after")

    def ev(e, env, mode, rc):
        """value of a boolean / constant expression; raises _Unknown"""
        if isinstance(e, ast.Constant):
            return e.value
        if isinstance(e, ast.Name):
            if e.id == ctx_param and e.id not in env:
                return rc
            if e.id in env:
                return env[e.id]
            raise _Unknown(e.id)
        if isinstance(e, ast.Attribute) and isinstance(e.value, ast.Name) and e.value.id == cvar and e.attr == "default_collate_mode":
            return mode
        if isinstance(e, ast.UnaryOp) and isinstance(e.op, ast.Not):
            return not ev(e.operand, env, mode, rc)
        if isinstance(e, ast.BoolOp):
            vals = None
            if isinstance(e.op, ast.And):
                for v in e.values:
                    r = ev(v, env, mode, rc)
                    if not r:
                        return r
                return r
            for v in e.values:
                r = ev(v, env, mode, rc)
                if r:
                    return r
            return r
        if isinstance(e, ast.IfExp):
            return ev(e.body if ev(e.test, env, mode, rc) else e.orelse, env, mode, rc)
        if isinstance(e, ast.Compare) and len(e.ops) == 1:
            a, b2 = ev(e.left, env, mode, rc), ev(e.comparators[0], env, mode, rc)
            op = e.ops[0]
            if isinstance(op, (ast.Eq, ast.Is)):
                return a == b2 if isinstance(op, ast.Eq) else (a is b2 or (a == b2 and isinstance(a, (str, bool, type(None)))))
            if isinstance(op, (ast.NotEq, ast.IsNot)):
                return a != b2
            if isinstance(op, ast.In):
                return a in b2
            if isinstance(op, ast.NotIn):
                return a not in b2
        if isinstance(e, (ast.Tuple, ast.List)):
            return tuple(ev(x, env, mode, rc) for x in e.elts)
        raise _Unknown(ast.unparse(e)[:40])

    def is_dc(call, arg):
        return isinstance(call, ast.Call) and ((isinstance(call.func, ast.Name) and call.func.id == "default_collate") or (
            isinstance(call.func, ast.Attribute) and call.func.attr == "default_collate")) and len(call.args) == 1 and \
            isinstance(call.args[0], ast.Name) and call.args[0].id == arg

    def events_of(st, cname):
        """events of one simple statement"""
        out = []
        if isinstance(st, ast.Assign) and len(st.targets) == 1:
            t, v = st.targets[0], st.value
            if isinstance(t, ast.Name) and t.id == bvar and is_dc(v, bvar):
                out.append(("DC", st.lineno))
            elif isinstance(t, ast.Tuple) and len(t.elts) == 2 and all(isinstance(x, ast.Name) for x in t.elts) and (
                    t.elts[0].id == bvar or any(isinstance(y, ast.Name) and y.id == bvar for y in ast.walk(v))):
                # (the two parts may first go into temporaries: samples, sample_ctxs = zip(*batch); batch = samples)
                if isinstance(v, ast.Name) and v.id == bvar:
                    out.append(("SPLIT_TUPLE", st.lineno, t.elts[1].id))
                elif isinstance(v, ast.Call) and isinstance(v.func, ast.Name) and v.func.id == "zip" and v.args and \
                        isinstance(v.args[0], ast.Starred) and isinstance(v.args[0].value, ast.Name) and v.args[0].value.id == bvar:
                    out.append(("SPLIT_ZIP", st.lineno, t.elts[1].id))
                else:
                    out.append(("SPLIT_OTHER", st.lineno, t.elts[1].id))
            elif isinstance(t, ast.Name) and isinstance(v, ast.Call) and len(v.args) == 1 and isinstance(v.args[0], ast.Name) and \
                    v.args[0].id != bvar and (is_dc(v, v.args[0].id) or (isinstance(v.func, ast.Attribute) and "collate" in v.func.attr)
                                              or (isinstance(v.func, ast.Name) and "collate" in v.func.id)):
                # default_collate(ctxs) or another collation helper applied to the per-sample contexts
                out.append(("DC_CTX", st.lineno, v.args[0].id))
            elif isinstance(v, ast.Call) and isinstance(v.func, ast.Attribute) and v.func.attr == "collate" and \
                    isinstance(v.func.value, ast.Name) and v.func.value.id == cname:
                out.append(("COLLATE", st.lineno))
        elif isinstance(st, ast.Expr) and isinstance(st.value, ast.Call) and isinstance(st.value.func, ast.Attribute) and \
                st.value.func.attr == "collate":
            out.append(("COLLATE", st.lineno))
        return out

    def run_region(start, stop_nodes, env, mode, rc, limit=4000):
        """all executions from start until a stop node: [(env at stop, events, stop node)]; asserts that fail end the execution
        (rejected); tests of unknown value branch both ways"""
        results = []
        budget = [limit]

        def walk(n, env, evs, seen):
            budget[0] -= 1
            if budget[0] < 0:
                raise _Unknown("too many paths")
            if n in stop_nodes:
                results.append((dict(env), list(evs), n))
                return
            if n in seen:
                raise _Unknown("inner loop")
            if n in (cfg.exit, cfg.raise_exit):
                return
            nd = cfg.nodes[n]
            seen = seen | {n}
            if nd.kind == "test":
                try:
                    val = bool(ev(nd.ast, env, mode, rc))
                    branches = [val]
                except _Unknown:
                    branches = [True] if isinstance(nd.owner, ast.Assert) else [True, False]
                for lab in branches:
                    if isinstance(nd.owner, ast.Assert) and lab is False:
                        continue  # rejected sequence
                    m = cfg.out_edge(n, lab)
                    if m is not None:
                        walk(m, env, evs, seen)
                return
            if nd.kind == "stmt":
                st = nd.ast
                evs = evs + events_of(st, cvar)
                if isinstance(st, (ast.Assign, ast.AnnAssign)) and not events_of(st, cvar):
                    tg = st.targets[0] if isinstance(st, ast.Assign) else st.target
                    if isinstance(tg, ast.Name) and st.value is not None:
                        env = dict(env)
                        try:
                            env[tg.id] = ev(st.value, env, mode, rc)
                        except _Unknown:
                            env.pop(tg.id, None)
                elif isinstance(st, ast.AugAssign) and isinstance(st.target, ast.Name) and isinstance(st.op, (ast.BitOr, ast.BitAnd)):
                    env = dict(env)
                    try:
                        r = ev(st.value, env, mode, rc)
                        cur = env[st.target.id]
                        env[st.target.id] = (cur or r) if isinstance(st.op, ast.BitOr) else (cur and r)
                    except (_Unknown, KeyError):
                        env.pop(st.target.id, None)
                elif isinstance(st, ast.Return):
                    return
            for m in cfg.g.successors(n):
                walk(m, env, evs, seen)
        walk(start, env, [], frozenset())
        return results

    problems: List[Tuple[str, str, int]] = []
    n_states = 0
    try:
        for rc in (False, True):
            inits = run_region(cfg.entry, {LN}, {}, None, rc)
            seen_states = set()
            work = []
            for env0, evs0, _ in inits:
                flags0 = tuple(sorted((k, v) for k, v in env0.items() if isinstance(v, bool)))
                # what happens before the first collator (a context split up front) sets the initial ghost state
                g_c0 = g_s0 = False
                pend0 = None
                for e in evs0:
                    if e[0] == "DC":
                        g_c0 = True
                    elif e[0] in ("SPLIT_TUPLE", "SPLIT_ZIP", "SPLIT_OTHER"):
                        if not rc:
                            problems.append(("G8.ctx-split-once", f"the context is split off (line {e[1]}) although return_ctx is false", e[1]))
                        if e[0] == "SPLIT_TUPLE" and not g_c0:
                            problems.append(("G8.ctx-split-once", f"the context is taken by tuple unpacking (line {e[1]}) from a batch "
                                             f"that is still a list of samples", e[1]))
                        if e[0] == "SPLIT_ZIP":
                            pend0 = e[2]
                        g_s0 = True
                    elif e[0] == "DC_CTX" and pend0 == e[2]:
                        pend0 = None
                if pend0 is not None:
                    problems.append(("G8.ctx-split-once", "the per-sample contexts split off before the loop are not collated", 0))
                work.append((flags0, g_c0, g_s0, ()))  # (flags, ghost collated, ghost split, history of modes)
            while work:
                flags, g_coll, g_split, hist = work.pop()
                key = (flags, g_coll, g_split)
                if key in seen_states or len(hist) > 6:
                    continue
                seen_states.add(key)
                n_states += 1
                for mode in MODES:
                    for env1, evs, stop in run_region(body_entry, {LN}, dict(flags), mode, rc):
                        gc, gs = g_coll, g_split
                        collated_at_collate = None
                        dc_after_collate = False
                        pending_zip = None
                        seq = "[" + ", ".join(repr(m_) for m_ in hist + (mode,)) + "]" + (" with return_ctx" if rc else "")
                        for e in evs:
                            if e[0] == "DC":
                                if gc:
                                    problems.append(("G8.collate-once", f"for the collator sequence {seq} default_collate(batch) (line "
                                                     f"{e[1]}) runs on a batch that was already collated", e[1]))
                                gc = True
                                if collated_at_collate is not None:
                                    dc_after_collate = True
                            elif e[0] in ("SPLIT_TUPLE", "SPLIT_ZIP", "SPLIT_OTHER"):
                                if not rc:
                                    problems.append(("G8.ctx-split-once", f"the context is split off (line {e[1]}) although return_ctx is "
                                                     f"false: a part of the batch is taken for the context", e[1]))
                                if gs:
                                    problems.append(("G8.ctx-split-once", f"for the collator sequence {seq} the context is split off a "
                                                     f"second time (line {e[1]}): a part of the batch is taken for the context", e[1]))
                                if e[0] == "SPLIT_TUPLE" and not gc:
                                    problems.append(("G8.ctx-split-once", f"for {seq} the context is taken by tuple unpacking (line {e[1]}) "
                                                     f"from a batch that is still a list of samples", e[1]))
                                if e[0] == "SPLIT_ZIP":
                                    if gc:
                                        problems.append(("G8.ctx-split-once", f"for {seq} the context is taken by zip(*batch) (line {e[1]}) "
                                                         f"from a batch that is already collated", e[1]))
                                    pending_zip = e[2]
                                gs = True
                            elif e[0] == "DC_CTX":
                                if pending_zip == e[2]:
                                    pending_zip = None
                            elif e[0] == "COLLATE":
                                collated_at_collate = gc
                                if rc and not gs:
                                    problems.append(("G8.ctx-split-once", f"for {seq} the collator runs (line {e[1]}) before the context "
                                                     f"was split off the batch", e[1]))
                                if pending_zip is not None:
                                    problems.append(("G8.ctx-split-once", f"for {seq} the per-sample contexts are handed to the collator "
                                                     f"without being collated", e[1]))
                                if mode == "before" and not gc:
                                    problems.append(("G8.collate-once", f"for {seq} a 'before' collator (line {e[1]}) receives a batch that "
                                                     f"was not default-collated", e[1]))
                                if mode in (None, "after") and gc:
                                    problems.append(("G8.collate-once", f"for {seq} a collator of mode {mode!r} (line {e[1]}) receives a "
                                                     f"batch that is already collated", e[1]))
                        if collated_at_collate is None:
                            problems.append(("G8.collate-once", f"for {seq} the collator's collate is not called", 0))
                        if mode == "after" and not dc_after_collate:
                            problems.append(("G8.collate-once", f"for {seq} the 'after' collator is not followed by default_collate(batch)",
                                             0))
                        flags1 = tuple(sorted((k, v) for k, v in env1.items() if isinstance(v, bool)))
                        work.append((flags1, gc, gs, hist + (mode,)))
    except _Unknown as e:
        rep.unk("G8.collate-once", fi, "pipeline", f"the collator loop could not be interpreted ({e}): not decided", clause="C18.1")
        return
    by_rule = {"G8.collate-once": [], "G8.ctx-split-once": []}
    for rule, text, line in problems:
        if text not in [t for t, _ in by_rule[rule]]:
            by_rule[rule].append((text, line))
    for rule, items in by_rule.items():
        items.sort(key=lambda x: len(x[0]))
        rep.decide(not items, rule, fi, "pipeline", f"holds on all {n_states} reachable (flag state, ghost state) pairs x 3 modes",
                   "; ".join(t for t, _ in items[:2]), line=items[0][1] if items else fi.node.lineno, clause="C18.1")


def _closes(cfg, n: int, LN: int, setters: Set[int]) -> bool:
    """The flag is set in the same loop step as site n on every path: after n (before the next step / the return), or
    between the start of the step and n."""
    if not setters:
        return False
    after = not cfg.reachable(n, LN, avoid=setters) and not cfg.reachable(n, cfg.exit, avoid=setters)
    entry = cfg.out_edge(LN, True)
    before = entry is not None and (entry in setters or not cfg.reachable(entry, n, avoid=set(setters) | {LN})) \
        and n not in setters
    return after or before


def _where(fa: FA, n: int) -> str:
    """Stable description of a site: the innermost branch condition it sits under."""
    conds = fa.conds_at(n, asserts=False)
    if not conds:
        return "top"
    s = show(conds[-1])
    import re
    s = re.sub(r"@\[[0-9, ]*\]", "", s)
    return s[:70]


def collate_callers(prog: Program, rep: Report):
    rep.rule("G9.ctx-identity", "at every call of a member collator's collate(...) inside the collator family: the result is "
             "bound as a whole to the batch (never unpacked into batch and context), the ctx argument is a local variable, "
             "and where the caller returns (batch, ctx) the second component is that same variable - collators write into "
             "the context they are given, no in-package collate returns it")
    base = prog.cls("KDCollatorBase")
    n_sites = 0
    for C in prog.subclasses(base):
        for fi in C.methods.values():
            fa = fa_of(prog, fi)
            for n, c in fa.calls_named("collate"):
                if not isinstance(c.func, ast.Attribute):
                    continue
                recv = fa.sym.term(c.func.value, n)
                if recv == ("param", fa.self_name):
                    continue  # recursion inside one collator, not the pipeline interface
                n_sites += 1
                rep.analysed_add("functions", f"{fi.module.relpath}:{fi.qualname}")
                nd = fa.cfg.nodes[n]
                st = nd.ast if nd.kind == "stmt" else None
                whole = isinstance(st, ast.Assign) and len(st.targets) == 1 and isinstance(st.targets[0], ast.Name) \
                    and st.value is c
                ctx_arg = None
                for k in c.keywords:
                    if k.arg == "ctx":
                        ctx_arg = k.value
                if ctx_arg is None and len(c.args) >= 3:
                    ctx_arg = c.args[2]
                is_var = isinstance(ctx_arg, ast.Name)
                same = True
                if is_var:
                    for rn, rt in fa.returns():
                        nd_r = fa.ret_ast(rn)[0]
                        if isinstance(nd_r, ast.Tuple) and len(nd_r.elts) == 2:
                            same = same and isinstance(nd_r.elts[1], ast.Name) and nd_r.elts[1].id == ctx_arg.id
                            same = same and isinstance(nd_r.elts[0], ast.Name) and whole and nd_r.elts[0].id == st.targets[0].id
                problems = []
                if not whole:
                    problems.append("the value of collate(...) is unpacked / not bound to the batch as a whole (for a mode with "
                                    "two items the second item is taken for the context)")
                if not is_var:
                    problems.append("the ctx argument is not a local variable, so what the collator writes into it cannot be "
                                    "handed back")
                elif not same:
                    problems.append("the returned pair is not (<collate result>, <the ctx variable passed to collate>)")
                rep.decide(not problems, "G9.ctx-identity", fi, "call:collate", "batch = collate(..., ctx=<local>) and that "
                           "local is what is returned as context", "; ".join(problems), line=c.lineno, clause="C18.2")
    rep.floor("call sites of the collate interface", n_sites, 2)


def compose_config(prog: Program, rep: Report):
    rep.rule("G9.compose-config", "KDComposeCollator.__call__ returns, on every path, _call_impl(batch, collators=self.collators, "
             "dataset_mode=self.dataset_mode, return_ctx=self.return_ctx): the members run under the composite's own dataset mode "
             "and context setting.  Calling a member collator as a whole (member(batch)) lets it collate with *its* configuration: "
             "another item layout, or a bare batch where (batch, ctx) was configured")
    prog = prog.keeping("_call_impl")  # the rule looks at the hand-over to the shared pipeline, not at the pipeline
    fi = prog.method("KDComposeCollator", "__call__", own=True, required=False)
    if fi is None:
        return
    fa = fa_of(prog, fi)
    rets = fa.returns()
    ok = bool(rets)
    why = []
    for n, t in rets:
        if t is None or t[0] != "call":
            ok = None if ok else ok
            why.append("a return of unrecognised shape")
            continue
        f = t[1]
        if f in (("self", "_call_impl"), ("attr", ("param", fa.self_name), "_call_impl")) or (
                f[0] == "global" and f[1].endswith("_call_impl")):
            kw = {k_: v_ for k_, v_ in t[3] if not str(k_).startswith("#")}
            pos = list(t[2])
            names_ = ["batch", "collators", "dataset_mode", "return_ctx"]
            for i_, v_ in enumerate(pos):
                if i_ < len(names_):
                    kw.setdefault(names_[i_], v_)
            want = {"collators": ("self", "collators"), "dataset_mode": ("self", "dataset_mode"), "return_ctx": ("self", "return_ctx")}
            for k_, v_ in want.items():
                if kw.get(k_) != v_:
                    ok = False
                    why.append(f"_call_impl receives {k_}={show(kw.get(k_)) if kw.get(k_) else 'nothing'}, not self.{k_}")
        else:
            leaves_ = {x for x in leaves(f)}
            member_like = any(x[0] == "self" for x in leaves_) or any(x[0] == "var" and x[1].startswith(f"{fa.self_name}.")
                                                                      for x in leaves_)
            if member_like:
                ok = False
                why.append(f"a path returns {show(t)[:60]}: a member collator is called as a whole and collates with its own "
                           f"dataset_mode / return_ctx")
            else:
                ok = None if ok else ok
                why.append(f"a return calls {show(f)[:40]} (not decided)")
    rep.decide(ok, "G9.compose-config", fi, "returns-call_impl", "every return goes through _call_impl with the composite's configuration",
               "; ".join(why), line=fi.node.lineno, clause="C18.1")


def pad_stateless(prog: Program, rep: Report):
    from ..rules.hooks import stores_on_self
    rep.rule("G8.collate-stateless", "PadSequencesCollator.collate (private helpers inlined) writes nothing onto the collator: every "
             "padded tensor is created in the call that returns it.  A buffer kept on the collator is zeroed once and then "
             "overwritten only where the next batch has content: padding positions carry values of earlier batches, and a batch "
             "already handed out changes when the next one is collated")
    fi = prog.method("PadSequencesCollator", "collate", own=True)
    st = stores_on_self(fa_of(prog, fi))
    rep.decide(not st, "G8.collate-stateless", fi, "no-store-on-self", "collate writes nothing onto the collator",
               "; ".join(f"{w} (line {ln})" for ln, w in st[:3]) + ": PadSequencesCollator.collate keeps state on the collator "
               "between batches", line=st[0][0] if st else fi.node.lineno, clause="C18.3")


def pad_dispatch(prog: Program, rep: Report):
    """Which fields are padded: decided on the path conditions of the pad_sequence / default_collate calls, whatever the shape of
    the code around them (loop, helper per field, comprehension)."""
    from .sampler_common import GiveUp, formula_atoms, formula_eval, path_condition
    rep.rule("G9.pad-dispatch", "in PadSequencesCollator, wherever the choice between pad_sequence and default_collate is made by a "
             "test on torch.is_tensor(f) and f.ndim: a field is padded exactly if it is a tensor of rank >= 1 - the condition of "
             "the pad_sequence call implies 'is_tensor and ndim > 0' and the condition of the sibling default_collate call "
             "excludes it, for every rank 0..4 and every value of the other tests")
    C = prog.raw.cls("PadSequencesCollator")
    import itertools
    n_sites = 0
    for fi in C.methods.values():
        fa = fa_of(prog.raw, fi)
        cfg = fa.cfg
        calls = [(n, c, "pad") for n, c in fa.calls_named("pad_sequence")] + [(n, c, "dc") for n, c in fa.calls_named("default_collate")]
        conds = {}
        for n, c, kind in calls:
            try:
                D, _np = path_condition(fa, cfg.entry, {n}, set(cfg.nodes))
            except GiveUp:
                continue
            atoms = formula_atoms(D)
            tens = [a for a in atoms if a[0] == "call" and a[2] and (a[1] == ("global", "torch.is_tensor") or (
                a[1] == ("global", "isinstance") and len(a[2]) == 2 and a[2][1] == ("global", "torch.Tensor")))]
            if not tens:
                continue
            conds[n] = (c, kind, D, atoms, tens[0])
        for n, (c, kind, D, atoms, A) in conds.items():
            n_sites += 1
            F = A[2][0]
            nd_attr = ("attr", F, "ndim")
            rank_atoms = [a for a in atoms if a != A and nd_attr in set(subterms(a))]
            others = [a for a in atoms if a != A and a not in rank_atoms]

            def rank_value(a, r):
                # a is ('eq' | 'lt', poly in ndim): evaluate at ndim = r
                if a[0] not in ("eq", "lt"):
                    return None
                p = term_to_poly(a[1]).subst(nd_attr, Poly.const(r))
                v = p.const_value()
                if v is None:
                    return None
                return (v == 0) if a[0] == "eq" else (v < 0)
            bad = None
            undecided = False
            for r in range(5):
                for is_t in (False, True):
                    for row in itertools.product((False, True), repeat=len(others)):
                        val = dict(zip(others, row))
                        val[A] = is_t
                        for a in rank_atoms:
                            rv = rank_value(a, r)
                            if rv is None:
                                undecided = True
                                rv = False
                            val[a] = rv
                        taken = formula_eval(D, val)
                        spec = is_t and r > 0
                        if kind == "pad" and taken and not spec and bad is None:
                            bad = f"a field that is {'a tensor of rank 0' if is_t else 'not a tensor'} reaches pad_sequence"
                        if kind == "dc" and taken and spec and bad is None:
                            bad = (f"a tensor field of rank {r} reaches default_collate instead of pad_sequence: variable-length "
                                   f"fields of that rank are stacked (and fail) instead of being padded")
            verdict = None if (undecided and bad is None) else bad is None
            o = rep.decide(verdict, "G9.pad-dispatch", fi, f"{'pad_sequence' if kind == 'pad' else 'default_collate'}@{fi.name}",
                           "reached exactly by the fields it is meant for", bad or "rank test of unrecognised shape",
                           line=c.lineno, clause="C18.3")
    rep.floor("pad / collate call sites dispatched on is_tensor", n_sites, 0)


def pad_sequences(prog: Program, rep: Report):
    rep.rule("G9.pad-fields", "PadSequencesCollator.collate: in the per-field loop over range(len(batch[0])) every field index is "
             "appended exactly once on every path (field order and count preserved); fields whose first element is a tensor of "
             "rank >= 1 go through pad_sequence([b[i] for b in batch], batch_first=True), all others through "
             "default_collate([b[i] for b in batch]) with the same i; the result is tuple(<that list>)")
    fi = prog.method("PadSequencesCollator", "collate", own=True)
    fa = fa_of(prog, fi)
    cfg = fa.cfg
    rep.analysed_add("functions", f"{fi.module.relpath}:{fi.qualname}")
    bp = fi.params()[1]
    B = ("param", bp)
    for n, c in fa.calls_named("pad_sequence"):
        t = fa.sym.term(c, n)
        rep.decide(("batch_first", ("const", True)) in t[3], "G9.pad-fields", fi,
                   f"pad_sequence:{' '.join(ast.unparse(c).split())[:50]}", "batch_first=True",
                   "pad_sequence without batch_first=True: the padded field is laid out (length, batch, ...) unlike every "
                   "default-collated field", line=c.lineno, clause="C18.3")
    loops = [(n, nd) for n, nd in cfg.nodes.items() if nd.kind == "next"
             and isinstance(nd.owner.iter, ast.Call) and fa.sym.term(nd.owner.iter, cfg.stmt_node[nd.owner]) ==
             ("call", ("global", "range"), (("call", ("global", "len"), (("sub", B, ("const", 0)),), ()),), ())]
    if len(loops) != 1 or not isinstance(loops[0][1].owner.target, ast.Name):
        rep.unk("G9.pad-fields", fi, "field-loop", "no loop over range(len(batch[0])) found", clause="C18.3")
        return
    LN, nd = loops[0]
    I = ("var", nd.owner.target.id, frozenset({LN}))
    body = cfg.nodes_inside(nd.owner.body)
    apps = [(n, c) for n, c in fa.calls_named("append") if n in body]
    nodes = {n for n, _ in apps}
    entry = cfg.out_edge(LN, True)
    once = bool(apps) and (entry in nodes or not cfg.reachable(entry, LN, avoid=nodes, within=body)) and not any(
        cfg.reachable(a, b, avoid={LN}, within=body) for a in nodes for b in nodes)
    rep.decide(once, "G9.pad-fields", fi, "append-once", "every field is appended exactly once per loop step",
               "a field can be skipped or appended twice: the batch layout no longer matches the dataset mode",
               line=fa.line(LN), clause="C18.3")
    # ---- fields are collated independently of one another ---------------------------------------------------------------
    rep.rule("G4.field-independent", "in the per-field loop no value that was computed from the data of one field (its definition "
             "depends on the loop variable) survives into a later iteration and is used there for the collated field: every "
             "local used by an appended value is either re-defined on every path of the current iteration before the append or "
             "never defined from per-field data.  (A length, shape or maximum remembered from an earlier field would pad or "
             "cut the later fields to that field's size.)")
    ivar = nd.owner.target.id
    acc = {c.func.value.id for _, c in apps if isinstance(c.func.value, ast.Name)}
    def _mentions_loop_var(e, depth=6, seen_=None) -> bool:
        """e is computed (through definitions inside the loop body) from the loop variable: per-field data."""
        seen_ = seen_ if seen_ is not None else set()
        for y in ast.walk(e):
            if isinstance(y, ast.Name) and isinstance(y.ctx, ast.Load):
                if y.id == ivar:
                    return True
                if depth > 0 and y.id not in seen_:
                    seen_.add(y.id)
                    for d2, var2, val2 in fa.stores():
                        if var2 == y.id and d2 in body and val2 is not None and _mentions_loop_var(val2, depth - 1, seen_):
                            return True
        return False

    carried = []
    for n, c in apps:
        used = {y.id for a_ in list(c.args) + [k.value for k in c.keywords] for y in ast.walk(a_)
                if isinstance(y, ast.Name) and isinstance(y.ctx, ast.Load)}
        # the appended value may be built from temporaries: follow them inside this iteration
        work, seen_v = list(used), set()
        while work:
            v = work.pop()
            if v in seen_v or v == ivar or v in acc:
                continue
            seen_v.add(v)
            in_body = [d for d, var, val in fa.stores() if var == v and d in body]
            if not in_body:
                continue
            for d in in_body:
                val = cfg.def_value(d, v)
                if val is not None:
                    work += [y.id for y in ast.walk(val) if isinstance(y, ast.Name) and isinstance(y.ctx, ast.Load)]
            all_defs = {d for d, var, val in fa.stores() if var == v}
            survives = entry not in all_defs and cfg.reachable(entry, n, avoid=all_defs, within=body | {n})
            per_field = any(_mentions_loop_var(cfg.def_value(d, v)) for d in in_body if cfg.def_value(d, v) is not None)
            if survives and per_field:
                carried.append((v, fa.line(in_body[0])))
    rep.decide(not carried, "G4.field-independent", fi, "no-carried-field-data", "every per-field value is recomputed for every field",
               "; ".join(f"'{v}' (defined from a field's data at line {ln}) can reach the collation of a later field without being "
                         f"recomputed" for v, ln in sorted(set(carried))) + ": later fields are padded / cut with an earlier "
               "field's measure", line=carried[0][1] if carried else fa.line(LN), clause="C18.3")
    field = lambda base: ("comp", "ListComp", ("sub", ("bound", "b"), I), ((("bound", "b"), B, ()),))
    for n, c in apps:
        t = fa.sym.term(c.args[0], n) if c.args else None
        conds = fa.conds_at(n)
        tensor_branch = None
        for cd in conds:
            parts = _flat_and(cd)
            is_t = [p for p in parts if p[0] == "call" and p[1] == ("global", "torch.is_tensor")]
            neg_t = [p for p in parts if p[0] == "not" and p[1][0] == "call" and p[1][1] == ("global", "torch.is_tensor")]
            if is_t:
                arg = is_t[0][2][0]
                # (which ranks the comparison admits is judged by G9.pad-dispatch on ranks 0..4; here: there is a rank test)
                rank = [p for p in parts if p[0] in ("lt", "le", "gt", "ge", "not", "eq", "ne") and contains(p, ("attr", arg, "ndim"))]
                tensor_branch = (arg == ("sub", ("sub", B, ("const", 0)), I)) and bool(rank)
            elif cd[0] == "not" or cd[0] == "or":
                # negated guard (else branch)
                if any(x[0] == "call" and x[1] == ("global", "torch.is_tensor") for x in subterms(cd)):
                    tensor_branch = "else"
        if t is None or t[0] != "call":
            rep.unk("G9.pad-fields", fi, f"append:{' '.join(ast.unparse(c).split())[:50]}", "appended value of unrecognised "
                    "shape", line=c.lineno, clause="C18.3")
            continue
        callee = t[1][1] if t[1][0] == "global" else "?"
        arg0 = t[2][0] if t[2] else None
        comp_ok = arg0 is not None and _is_field_comp(arg0, B, I)
        if callee.endswith("pad_sequence"):
            ok = tensor_branch is True and comp_ok
            why_bad = "pad_sequence is not applied to [b[i] for b in batch] of the current field under 'first element is a " \
                      "tensor with ndim > 0'"
        elif callee.endswith("default_collate"):
            ok = tensor_branch == "else" and comp_ok
            why_bad = "default_collate is not applied to [b[i] for b in batch] of the current field in the non-tensor branch"
        else:
            ok, why_bad = None, f"field collated by {callee}"
        rep.decide(ok, "G9.pad-fields", fi, f"append:{callee.rsplit('.', 1)[-1]}", "field i collated from [b[i] for b in batch]",
                   why_bad, line=c.lineno, clause="C18.3")
    # result
    rets = [(n, t) for n, t in fa.returns() if t is not None and n not in body and any(
        cfg.reachable(LN, n) for _ in [0])]
    lst = None
    for n, c in apps:
        if isinstance(c.func.value, ast.Name):
            lst = c.func.value.id
    ok = False
    for n, t in rets:
        v = fa.ret_ast(n)[0]
        if cfg.reachable(LN, n) and isinstance(v, ast.Call) and isinstance(v.func, ast.Name) and v.func.id == "tuple" \
                and len(v.args) == 1 and isinstance(v.args[0], ast.Name) and v.args[0].id == lst:
            ok = True
    rep.decide(ok, "G9.pad-fields", fi, "result", "returns tuple(<collected fields>)",
               "the per-field result is not returned as tuple(<collected list>)", clause="C18.3", nontrivial=False)


def _is_field_comp(t: Term, B: Term, I: Term) -> bool:
    """[b[i] for b in batch] (any bound name) or the local it was stored in."""
    if t[0] == "comp" and t[1] == "ListComp" and len(t[3]) == 1:
        tgt, it, ifs = t[3][0]
        return it == B and not ifs and t[2] == ("sub", tgt, I)
    return False
