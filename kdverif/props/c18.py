"""C18 - collator pipeline keeps the batch layout and context contract (DESIGN §4 C18)."""
from __future__ import annotations

import ast
from typing import Dict, List, Optional, Set, Tuple

from ..core import Report
from ..fa import FA, fa_of
from ..model import Program
from ..rules import names
from ..sym import Term, contains, leaves, negate, show, subterms

FILES = ["kappadata/collators/base/kd_collator_base.py", "kappadata/collators/base/kd_compose_collator.py",
         "kappadata/collators/base/kd_single_collator.py", "kappadata/collators/base/kd_single_collator_wrapper.py",
         "kappadata/collators/pad_sequences_collator.py"]


def _flat_and(t: Term) -> List[Term]:
    if t[0] == "and":
        out = []
        for x in t[1]:
            out += _flat_and(x)
        return out
    return [t]


def _neg_flags(conds: List[Term]) -> Set[str]:
    """Locals F for which 'not F' holds at the node (from if-tests and asserts)."""
    out = set()
    for c in conds:
        for x in _flat_and(c):
            if x[0] == "not" and x[1][0] == "var" and "." not in x[1][1]:
                out.add(x[1][1])
            if x[0] == "not" and x[1][0] == "const":
                pass
    return out


def run(prog: Program, rep: Report, tier: str):
    rep.trusted += ["torch.utils.data.default_collate / torch.nn.utils.rnn.pad_sequence behave as documented",
                    "in-package collate implementations write into the ctx dict they are given and return the batch"]
    rep.not_decided += ["contents of the merged context (keys, values)", "padded values / shapes as tensor facts"]
    call_impl(prog, rep)
    collate_callers(prog, rep)
    pad_sequences(prog, rep)
    pad_stateless(prog, rep)
    compose_config(prog, rep)
    names.check(prog, rep, FILES, clause="C18.G1", floor=15)


def call_impl(prog: Program, rep: Report):
    fi = prog.method("KDCollatorBase", "_call_impl", own=True)
    fa = fa_of(prog, fi)
    cfg = fa.cfg
    rep.analysed_add("functions", f"{fi.module.relpath}:{fi.qualname}")
    rep.rule("G8.collate-once", "every default_collate(<batch>) in _call_impl is reached only where a 'not yet collated' flag "
             "is known to be False (if-test or assert) and is followed, on every path to the next collator or the return, by "
             "setting that same flag; all collation sites use one flag - default collation happens at most once whatever the "
             "order of before / after / None collators")
    rep.rule("G8.ctx-split-once", "every statement that splits the context off the batch is reached only where a guard flag is "
             "False and is followed on every path by setting one of its guard flags; any two split sites are mutually "
             "exclusive over time (each is guarded by a flag the other one sets)")
    rep.rule("G9.return-shape", "_call_impl returns (batch, ctx) exactly on the paths with return_ctx true and the bare batch "
             "otherwise")
    bvar = fi.params()[0] if fi.is_static else fi.params()[1]
    loops = [n for n, nd in cfg.nodes.items() if nd.kind == "next"]
    rep.require(loops, "anchor-missing: loop over the collators in _call_impl")
    LN = loops[0]

    def is_batch(t: Term) -> bool:
        return t == ("param", bvar) or (t[0] == "var" and t[1] == bvar)

    sites = []
    for n, c in fa.calls():
        t = fa.sym.term(c, n)
        if t[1][0] == "global" and t[1][1].endswith("default_collate") and len(c.args) == 1 and isinstance(
                c.args[0], ast.Name) and c.args[0].id == bvar:
            sites.append((n, c))
    rep.require(sites, "anchor-missing: default_collate(batch) in _call_impl")
    flags_used = []
    for n, c in sites:
        guards = _neg_flags(fa.conds_at(n))
        setters = {f: {m for m, var, val in fa.stores() if var == f and val is not None
                       and fa.sym.term(val, m) == ("const", True)} for f in guards}
        closed = [f for f in guards if _closes(cfg, n, LN, setters[f])]
        construct = f"collate@{_where(fa, n)}"
        if not guards:
            rep.bad("G8.collate-once", fi, construct, "default_collate(batch) is not guarded by a 'not yet collated' flag: "
                    "a batch that was already collated is collated again", line=c.lineno, clause="C18.1")
        elif not closed:
            rep.bad("G8.collate-once", fi, construct, f"after this default_collate(batch) the guard flag "
                    f"({', '.join(sorted(guards))}) is not set on every path: a later collator with mode 'before' collates "
                    f"the already collated batch a second time (and a later mode-None collator is not rejected)",
                    line=c.lineno, clause="C18.1")
        else:
            rep.ok("G8.collate-once", fi, construct, f"guarded by not {closed[0]}, which is set afterwards on every path",
                   line=c.lineno, clause="C18.1")
            flags_used.append(closed[0])
    if flags_used:
        rep.decide(len(set(flags_used)) == 1, "G8.collate-once", fi, "one-flag",
                   f"all collation sites share the flag '{flags_used[0]}'",
                   "collation sites use different flags: one site does not see that another one already collated",
                   clause="C18.1")
    # ---- ctx splits ----------------------------------------------------------------------------------------------
    splits = []
    for n, nd in cfg.nodes.items():
        if nd.kind == "stmt" and isinstance(nd.ast, ast.Assign) and isinstance(nd.ast.targets[0], ast.Tuple) \
                and len(nd.ast.targets[0].elts) == 2 and all(isinstance(e, ast.Name) for e in nd.ast.targets[0].elts) \
                and nd.ast.targets[0].elts[0].id == bvar:
            if any(isinstance(x, ast.Name) and x.id == bvar for x in ast.walk(nd.ast.value)):
                splits.append((n, nd.ast.targets[0].elts[1].id))
    rep.floor("context split sites in _call_impl", len(splits), 1)
    info = {}
    for n, cv in splits:
        guards = _neg_flags(fa.conds_at(n))
        setters = {f: {m for m, var, val in fa.stores() if var == f and val is not None
                       and fa.sym.term(val, m) == ("const", True)} for f in guards}
        closed = {f for f in guards if _closes(cfg, n, LN, setters[f])}
        info[n] = (guards, closed)
        under_ctx = any(x == ("param", "return_ctx") for c in fa.conds_at(n) for x in _flat_and(c))
        rep.decide(bool(closed) and under_ctx, "G8.ctx-split-once", fi, f"split@{_where(fa, n)}",
                   f"guarded by not {', not '.join(sorted(guards))} under return_ctx; sets {', '.join(sorted(closed))}",
                   ("the context split is not under return_ctx; " if not under_ctx else "") +
                   ("no guard flag of this split is set afterwards on every path: the context can be split off twice"
                    if not closed else ""), line=fa.line(n), clause="C18.1")
    for a, _ in splits:
        for b, _ in splits:
            if a >= b:
                continue
            ga, ca = info[a]
            gb, cb = info[b]
            excl_ab = bool(ca & gb)  # after a ran, b is blocked
            excl_ba = bool(cb & ga)
            rep.decide(excl_ab and excl_ba, "G8.ctx-split-once", fi, f"exclusive:{_where(fa, a)}|{_where(fa, b)}",
                       "each split is blocked by a flag the other one sets",
                       f"the split at line {fa.line(b if not excl_ab else a)} is not blocked after the split at line "
                       f"{fa.line(a if not excl_ab else b)} ran (guards {sorted(gb if not excl_ab else ga)} vs flags set "
                       f"{sorted(ca if not excl_ab else cb)}): with return_ctx a collator sequence that reaches both takes "
                       f"a part of the batch for the context", line=fa.line(b), clause="C18.1")
    # ---- return shape ------------------------------------------------------------------------------------------------------
    rets = fa.returns()
    ok = bool(rets)
    for n, t in rets:
        under = any(c == ("param", "return_ctx") for c in fa.conds_at(n))
        not_under = any(c == ("not", ("param", "return_ctx")) for c in fa.conds_at(n))
        pair = t is not None and t[0] == "tuple" and len(t[1]) == 2 and is_batch(t[1][0]) and t[1][1][:2] in (
            ("var", "ctx"),) or (t is not None and t[0] == "tuple" and len(t[1]) == 2 and is_batch(t[1][0]))
        bare = t is not None and is_batch(t)
        if not ((under and pair and not bare) or (not_under and bare)):
            ok = False
    rep.decide(ok, "G9.return-shape", fi, "returns", "(batch, ctx) iff return_ctx",
               "a return hands back the pair without return_ctx, or the bare batch with it", clause="C18.2")


def _closes(cfg, n: int, LN: int, setters: Set[int]) -> bool:
    """The flag is set in the same loop step as site n on every path: after n (before the next step / the return), or
    between the start of the step and n."""
    if not setters:
        return False
    after = not cfg.reachable(n, LN, avoid=setters) and not cfg.reachable(n, cfg.exit, avoid=setters)
    entry = cfg.out_edge(LN, True)
    before = entry is not None and (entry in setters or not cfg.reachable(entry, n, avoid=set(setters) | {LN})) \
        and n not in setters
    return after or before


def _where(fa: FA, n: int) -> str:
    """Stable description of a site: the innermost branch condition it sits under."""
    conds = fa.conds_at(n, asserts=False)
    if not conds:
        return "top"
    s = show(conds[-1])
    import re
    s = re.sub(r"@\[[0-9, ]*\]", "", s)
    return s[:70]


def collate_callers(prog: Program, rep: Report):
    rep.rule("G9.ctx-identity", "at every call of a member collator's collate(...) inside the collator family: the result is "
             "bound as a whole to the batch (never unpacked into batch and context), the ctx argument is a local variable, "
             "and where the caller returns (batch, ctx) the second component is that same variable - collators write into "
             "the context they are given, no in-package collate returns it")
    base = prog.cls("KDCollatorBase")
    n_sites = 0
    for C in prog.subclasses(base):
        for fi in C.methods.values():
            fa = fa_of(prog, fi)
            for n, c in fa.calls_named("collate"):
                if not isinstance(c.func, ast.Attribute):
                    continue
                recv = fa.sym.term(c.func.value, n)
                if recv == ("param", fa.self_name):
                    continue  # recursion inside one collator, not the pipeline interface
                n_sites += 1
                rep.analysed_add("functions", f"{fi.module.relpath}:{fi.qualname}")
                nd = fa.cfg.nodes[n]
                st = nd.ast if nd.kind == "stmt" else None
                whole = isinstance(st, ast.Assign) and len(st.targets) == 1 and isinstance(st.targets[0], ast.Name) \
                    and st.value is c
                ctx_arg = None
                for k in c.keywords:
                    if k.arg == "ctx":
                        ctx_arg = k.value
                if ctx_arg is None and len(c.args) >= 3:
                    ctx_arg = c.args[2]
                is_var = isinstance(ctx_arg, ast.Name)
                same = True
                if is_var:
                    for rn, rt in fa.returns():
                        nd_r = fa.ret_ast(rn)[0]
                        if isinstance(nd_r, ast.Tuple) and len(nd_r.elts) == 2:
                            same = same and isinstance(nd_r.elts[1], ast.Name) and nd_r.elts[1].id == ctx_arg.id
                            same = same and isinstance(nd_r.elts[0], ast.Name) and whole and nd_r.elts[0].id == st.targets[0].id
                problems = []
                if not whole:
                    problems.append("the value of collate(...) is unpacked / not bound to the batch as a whole (for a mode with "
                                    "two items the second item is taken for the context)")
                if not is_var:
                    problems.append("the ctx argument is not a local variable, so what the collator writes into it cannot be "
                                    "handed back")
                elif not same:
                    problems.append("the returned pair is not (<collate result>, <the ctx variable passed to collate>)")
                rep.decide(not problems, "G9.ctx-identity", fi, "call:collate", "batch = collate(..., ctx=<local>) and that "
                           "local is what is returned as context", "; ".join(problems), line=c.lineno, clause="C18.2")
    rep.floor("call sites of the collate interface", n_sites, 2)


def compose_config(prog: Program, rep: Report):
    rep.rule("G9.compose-config", "KDComposeCollator.__call__ returns, on every path, _call_impl(batch, collators=self.collators, "
             "dataset_mode=self.dataset_mode, return_ctx=self.return_ctx): the members run under the composite's own dataset mode "
             "and context setting.  Calling a member collator as a whole (member(batch)) lets it collate with *its* configuration: "
             "another item layout, or a bare batch where (batch, ctx) was configured")
    prog = prog.keeping("_call_impl")  # the rule looks at the hand-over to the shared pipeline, not at the pipeline
    fi = prog.method("KDComposeCollator", "__call__", own=True, required=False)
    if fi is None:
        return
    fa = fa_of(prog, fi)
    rets = fa.returns()
    ok = bool(rets)
    why = []
    for n, t in rets:
        if t is None or t[0] != "call":
            ok = None if ok else ok
            why.append("a return of unrecognised shape")
            continue
        f = t[1]
        if f in (("self", "_call_impl"), ("attr", ("param", fa.self_name), "_call_impl")) or (
                f[0] == "global" and f[1].endswith("_call_impl")):
            kw = {k_: v_ for k_, v_ in t[3] if not str(k_).startswith("#")}
            pos = list(t[2])
            names_ = ["batch", "collators", "dataset_mode", "return_ctx"]
            for i_, v_ in enumerate(pos):
                if i_ < len(names_):
                    kw.setdefault(names_[i_], v_)
            want = {"collators": ("self", "collators"), "dataset_mode": ("self", "dataset_mode"), "return_ctx": ("self", "return_ctx")}
            for k_, v_ in want.items():
                if kw.get(k_) != v_:
                    ok = False
                    why.append(f"_call_impl receives {k_}={show(kw.get(k_)) if kw.get(k_) else 'nothing'}, not self.{k_}")
        else:
            leaves_ = {x for x in leaves(f)}
            member_like = any(x[0] == "self" for x in leaves_) or any(x[0] == "var" and x[1].startswith(f"{fa.self_name}.")
                                                                      for x in leaves_)
            if member_like:
                ok = False
                why.append(f"a path returns {show(t)[:60]}: a member collator is called as a whole and collates with its own "
                           f"dataset_mode / return_ctx")
            else:
                ok = None if ok else ok
                why.append(f"a return calls {show(f)[:40]} (not decided)")
    rep.decide(ok, "G9.compose-config", fi, "returns-call_impl", "every return goes through _call_impl with the composite's configuration",
               "; ".join(why), line=fi.node.lineno, clause="C18.1")


def pad_stateless(prog: Program, rep: Report):
    from ..rules.hooks import stores_on_self
    rep.rule("G8.collate-stateless", "PadSequencesCollator.collate (private helpers inlined) writes nothing onto the collator: every "
             "padded tensor is created in the call that returns it.  A buffer kept on the collator is zeroed once and then "
             "overwritten only where the next batch has content: padding positions carry values of earlier batches, and a batch "
             "already handed out changes when the next one is collated")
    fi = prog.method("PadSequencesCollator", "collate", own=True)
    st = stores_on_self(fa_of(prog, fi))
    rep.decide(not st, "G8.collate-stateless", fi, "no-store-on-self", "collate writes nothing onto the collator",
               "; ".join(f"{w} (line {ln})" for ln, w in st[:3]) + ": PadSequencesCollator.collate keeps state on the collator "
               "between batches", line=st[0][0] if st else fi.node.lineno, clause="C18.3")


def pad_sequences(prog: Program, rep: Report):
    rep.rule("G9.pad-fields", "PadSequencesCollator.collate: in the per-field loop over range(len(batch[0])) every field index is "
             "appended exactly once on every path (field order and count preserved); fields whose first element is a tensor of "
             "rank >= 1 go through pad_sequence([b[i] for b in batch], batch_first=True), all others through "
             "default_collate([b[i] for b in batch]) with the same i; the result is tuple(<that list>)")
    fi = prog.method("PadSequencesCollator", "collate", own=True)
    fa = fa_of(prog, fi)
    cfg = fa.cfg
    rep.analysed_add("functions", f"{fi.module.relpath}:{fi.qualname}")
    bp = fi.params()[1]
    B = ("param", bp)
    for n, c in fa.calls_named("pad_sequence"):
        t = fa.sym.term(c, n)
        rep.decide(("batch_first", ("const", True)) in t[3], "G9.pad-fields", fi,
                   f"pad_sequence:{' '.join(ast.unparse(c).split())[:50]}", "batch_first=True",
                   "pad_sequence without batch_first=True: the padded field is laid out (length, batch, ...) unlike every "
                   "default-collated field", line=c.lineno, clause="C18.3")
    loops = [(n, nd) for n, nd in cfg.nodes.items() if nd.kind == "next"
             and isinstance(nd.owner.iter, ast.Call) and fa.sym.term(nd.owner.iter, cfg.stmt_node[nd.owner]) ==
             ("call", ("global", "range"), (("call", ("global", "len"), (("sub", B, ("const", 0)),), ()),), ())]
    if len(loops) != 1 or not isinstance(loops[0][1].owner.target, ast.Name):
        rep.unk("G9.pad-fields", fi, "field-loop", "no loop over range(len(batch[0])) found", clause="C18.3")
        return
    LN, nd = loops[0]
    I = ("var", nd.owner.target.id, frozenset({LN}))
    body = cfg.nodes_inside(nd.owner.body)
    apps = [(n, c) for n, c in fa.calls_named("append") if n in body]
    nodes = {n for n, _ in apps}
    entry = cfg.out_edge(LN, True)
    once = bool(apps) and (entry in nodes or not cfg.reachable(entry, LN, avoid=nodes, within=body)) and not any(
        cfg.reachable(a, b, avoid={LN}, within=body) for a in nodes for b in nodes)
    rep.decide(once, "G9.pad-fields", fi, "append-once", "every field is appended exactly once per loop step",
               "a field can be skipped or appended twice: the batch layout no longer matches the dataset mode",
               line=fa.line(LN), clause="C18.3")
    # ---- fields are collated independently of one another ---------------------------------------------------------------
    rep.rule("G4.field-independent", "in the per-field loop no value that was computed from the data of one field (its definition "
             "depends on the loop variable) survives into a later iteration and is used there for the collated field: every "
             "local used by an appended value is either re-defined on every path of the current iteration before the append or "
             "never defined from per-field data.  (A length, shape or maximum remembered from an earlier field would pad or "
             "cut the later fields to that field's size.)")
    ivar = nd.owner.target.id
    acc = {c.func.value.id for _, c in apps if isinstance(c.func.value, ast.Name)}
    def _mentions_loop_var(e, depth=6, seen_=None) -> bool:
        """e is computed (through definitions inside the loop body) from the loop variable: per-field data."""
        seen_ = seen_ if seen_ is not None else set()
        for y in ast.walk(e):
            if isinstance(y, ast.Name) and isinstance(y.ctx, ast.Load):
                if y.id == ivar:
                    return True
                if depth > 0 and y.id not in seen_:
                    seen_.add(y.id)
                    for d2, var2, val2 in fa.stores():
                        if var2 == y.id and d2 in body and val2 is not None and _mentions_loop_var(val2, depth - 1, seen_):
                            return True
        return False

    carried = []
    for n, c in apps:
        used = {y.id for a_ in list(c.args) + [k.value for k in c.keywords] for y in ast.walk(a_)
                if isinstance(y, ast.Name) and isinstance(y.ctx, ast.Load)}
        # the appended value may be built from temporaries: follow them inside this iteration
        work, seen_v = list(used), set()
        while work:
            v = work.pop()
            if v in seen_v or v == ivar or v in acc:
                continue
            seen_v.add(v)
            in_body = [d for d, var, val in fa.stores() if var == v and d in body]
            if not in_body:
                continue
            for d in in_body:
                val = cfg.def_value(d, v)
                if val is not None:
                    work += [y.id for y in ast.walk(val) if isinstance(y, ast.Name) and isinstance(y.ctx, ast.Load)]
            all_defs = {d for d, var, val in fa.stores() if var == v}
            survives = entry not in all_defs and cfg.reachable(entry, n, avoid=all_defs, within=body | {n})
            per_field = any(_mentions_loop_var(cfg.def_value(d, v)) for d in in_body if cfg.def_value(d, v) is not None)
            if survives and per_field:
                carried.append((v, fa.line(in_body[0])))
    rep.decide(not carried, "G4.field-independent", fi, "no-carried-field-data", "every per-field value is recomputed for every field",
               "; ".join(f"'{v}' (defined from a field's data at line {ln}) can reach the collation of a later field without being "
                         f"recomputed" for v, ln in sorted(set(carried))) + ": later fields are padded / cut with an earlier "
               "field's measure", line=carried[0][1] if carried else fa.line(LN), clause="C18.3")
    field = lambda base: ("comp", "ListComp", ("sub", ("bound", "b"), I), ((("bound", "b"), B, ()),))
    for n, c in apps:
        t = fa.sym.term(c.args[0], n) if c.args else None
        conds = fa.conds_at(n)
        tensor_branch = None
        for cd in conds:
            parts = _flat_and(cd)
            is_t = [p for p in parts if p[0] == "call" and p[1] == ("global", "torch.is_tensor")]
            neg_t = [p for p in parts if p[0] == "not" and p[1][0] == "call" and p[1][1] == ("global", "torch.is_tensor")]
            if is_t:
                arg = is_t[0][2][0]
                rank = [p for p in parts if p[0] == "lt" and contains(p, ("attr", arg, "ndim"))]
                tensor_branch = (arg == ("sub", ("sub", B, ("const", 0)), I)) and bool(rank)
            elif cd[0] == "not" or cd[0] == "or":
                # negated guard (else branch)
                if any(x[0] == "call" and x[1] == ("global", "torch.is_tensor") for x in subterms(cd)):
                    tensor_branch = "else"
        if t is None or t[0] != "call":
            rep.unk("G9.pad-fields", fi, f"append:{' '.join(ast.unparse(c).split())[:50]}", "appended value of unrecognised "
                    "shape", line=c.lineno, clause="C18.3")
            continue
        callee = t[1][1] if t[1][0] == "global" else "?"
        arg0 = t[2][0] if t[2] else None
        comp_ok = arg0 is not None and _is_field_comp(arg0, B, I)
        if callee.endswith("pad_sequence"):
            ok = tensor_branch is True and comp_ok
            why_bad = "pad_sequence is not applied to [b[i] for b in batch] of the current field under 'first element is a " \
                      "tensor with ndim > 0'"
        elif callee.endswith("default_collate"):
            ok = tensor_branch == "else" and comp_ok
            why_bad = "default_collate is not applied to [b[i] for b in batch] of the current field in the non-tensor branch"
        else:
            ok, why_bad = None, f"field collated by {callee}"
        rep.decide(ok, "G9.pad-fields", fi, f"append:{callee.rsplit('.', 1)[-1]}", "field i collated from [b[i] for b in batch]",
                   why_bad, line=c.lineno, clause="C18.3")
    # result
    rets = [(n, t) for n, t in fa.returns() if t is not None and n not in body and any(
        cfg.reachable(LN, n) for _ in [0])]
    lst = None
    for n, c in apps:
        if isinstance(c.func.value, ast.Name):
            lst = c.func.value.id
    ok = False
    for n, t in rets:
        v = fa.ret_ast(n)[0]
        if cfg.reachable(LN, n) and isinstance(v, ast.Call) and isinstance(v.func, ast.Name) and v.func.id == "tuple" \
                and len(v.args) == 1 and isinstance(v.args[0], ast.Name) and v.args[0].id == lst:
            ok = True
    rep.decide(ok, "G9.pad-fields", fi, "result", "returns tuple(<collected fields>)",
               "the per-field result is not returned as tuple(<collected list>)", clause="C18.3", nontrivial=False)


def _is_field_comp(t: Term, B: Term, I: Term) -> bool:
    """[b[i] for b in batch] (any bound name) or the local it was stored in."""
    if t[0] == "comp" and t[1] == "ListComp" and len(t[3]) == 1:
        tgt, it, ifs = t[3][0]
        return it == B and not ifs and t[2] == ("sub", tgt, I)
    return False
