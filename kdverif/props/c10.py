"""C10 - batch mixup / cutmix mixes image and label with the same partner and weight (DESIGN §4 C10)."""
from __future__ import annotations

import ast
from typing import Dict, List, Optional, Set, Tuple

from ..core import Report
from ..fa import FA, fa_of
from ..model import Program
from ..rules import names
from ..sym import Poly, Term, contains, leaves, show, subterms, term_to_poly

FILES = ["kappadata/collators/kd_mix_collator.py", "kappadata/common/collators/mae_finetune_mix_collator.py"]


def _name(e) -> Optional[str]:
    return e.id if isinstance(e, ast.Name) else None


def _strip(t):
    if isinstance(t, tuple):
        if t and t[0] == "var" and len(t) == 3:
            return ("var", t[1])
        return tuple(_strip(x) for x in t)
    return t


def run(prog: Program, rep: Report, tier: str):
    rep.trusted += ["torch tensor ops (mul_, add_, view, where, clamp, roll, flip, indexing) behave as documented",
                    "ModeWrapper.get_item / set_item address the item named by their 'item' argument (C01)"]
    rep.not_decided += ["the pixel-fraction identity for actual tensors, the distribution of the draws, one-hot rows summing to "
                        "one as values"]
    C = prog.cls("KDMixCollator")
    fi = C.methods.get("collate")
    rep.require(fi is not None, "anchor-missing: KDMixCollator.collate")
    fa = fa_of(prog, fi)
    cfg = fa.cfg
    rep.analysed_add("functions", f"{fi.module.relpath}:{fi.qualname}")

    # ---- 1. partner sharing ---------------------------------------------------------------------------------------
    rep.rule("G4.partner-threading", "every self.shuffle(...) call in collate that can follow another one receives, on every path, the "
             "permutation an earlier shuffle returned: each definition of its permutation argument that reaches the call is the "
             "second result of a shuffle or the initial None, no shuffle lies on a path from such a None to the call without "
             "re-binding the variable, and a shuffle that is followed by another one binds the permutation it returns - image "
             "and label are mixed with the same partner")
    sh = [(n, c) for n, c in fa.calls_named("shuffle") if isinstance(c.func, ast.Attribute)
          and fa.sym.term(c.func.value, n) == ("param", fa.self_name)]
    rep.floor("shuffle call sites in collate", len(sh), 0)
    sh_nodes = {n for n, _ in sh}

    def _second_target(n_):
        st_ = cfg.nodes[n_].ast if cfg.nodes[n_].kind == "stmt" else None
        if isinstance(st_, ast.Assign) and isinstance(st_.value, ast.Call) and isinstance(st_.targets[0], ast.Tuple) \
                and len(st_.targets[0].elts) == 2:
            return _name(st_.targets[0].elts[1])
        return None

    for n, c in sh:
        nd = cfg.nodes[n]
        st = nd.ast if nd.kind == "stmt" else None
        pexpr = next((k.value for k in c.keywords if k.arg == "permutation"), c.args[1] if len(c.args) >= 2 else None)
        passed = _name(pexpr)
        construct = f"shuffle:{' '.join(ast.unparse(st if st is not None else c).split())[:90]}"
        problems = []
        earlier = [m for m in sh_nodes if m != n and cfg.reachable(m, n)]
        if passed is None:
            if earlier:
                problems.append("no permutation variable is passed although an earlier shuffle already drew the partner "
                                "permutation")
        else:
            all_defs = {m for m, var, val in fa.stores() if var == passed}
            def _copy_of_permutation(var_, d_, depth_=4) -> bool:
                # 'p2 = permutation': a plain copy of a variable whose own definitions are shuffle results / the initial None
                v_ = cfg.def_value(d_, var_) if cfg.nodes[d_].kind != "entry" else None
                if not isinstance(v_, ast.Name) or depth_ <= 0:
                    return False
                ds_ = cfg.reaching().get(d_, {}).get(v_.id, set())
                return bool(ds_) and all((x_ in sh_nodes and _second_target(x_) == v_.id) or _defines_none(fa, x_, v_.id)
                                         or _copy_of_permutation(v_.id, x_, depth_ - 1) for x_ in ds_)

            for d in sorted(cfg.reaching().get(n, {}).get(passed, set())):
                from_shuffle = d in sh_nodes and _second_target(d) == passed
                is_none = _defines_none(fa, d, passed)
                if not (from_shuffle or is_none) and _copy_of_permutation(passed, d):
                    continue
                if not (from_shuffle or is_none):
                    problems.append(f"'{passed}' may come from line {fa.line(d)}, which is neither the permutation returned by "
                                    f"a shuffle nor the initial None")
                if is_none:
                    # a shuffle between the None and this call drew a permutation that this call does not receive
                    for m in sorted(earlier):
                        if m not in all_defs and cfg.reachable(d, m, avoid=all_defs - {d}) and cfg.reachable(m, n, avoid=all_defs):
                            problems.append(f"the shuffle at line {fa.line(m)} draws the partner permutation but it is not "
                                            f"bound to '{passed}': this call still passes None and draws a new one")
                            break
            later = [m for m in sh_nodes if m != n and cfg.reachable(n, m)]
            if later and _second_target(n) is None:
                problems.append("the permutation this shuffle returns is not bound although later shuffles need it")
        rep.decide(not problems, "G4.partner-threading", fi, construct,
                   f"receives the permutation of the earlier shuffles via '{passed}'",
                   "; ".join(problems) + ": image and label are mixed with different partners in shuffle_mode='random'",
                   line=c.lineno, clause="C10.1")
    # shuffle itself: reuses a given permutation
    shf = C.methods.get("shuffle")
    if shf is not None:
        sa = fa_of(prog, shf)
        rep.analysed_add("functions", f"{shf.module.relpath}:{shf.qualname}")
        pp = "permutation"
        draws = [(n, c) for n, c in sa.calls_named("permutation")] + [(n, c) for n, c in sa.calls_named("randperm")]
        # the partner vector must be a permutation: the per-sample path scales the partner's clone row in place, so a sample that
        # is the partner of two others would be mixed in already scaled
        non_perm = [(n, c) for n, c in sa.calls() if isinstance(c.func, ast.Attribute) and c.func.attr in (
            "integers", "choice", "random", "randint", "uniform", "multinomial") and sa.sym.term(c.func.value, n) == ("self", "rng")]
        rep.decide(False if non_perm else (True if draws else None), "G4.partner-threading", shf, "partner-is-permutation",
                   "random partners are drawn as a permutation of the batch", 
                   (f"partner indices are drawn with {ast.unparse(non_perm[0][1])[:60]}, not as a permutation: one sample can be the "
                    f"partner of several, and the partner rows that are scaled in place are then mixed in twice") if non_perm else
                   "no partner draw recognised", line=non_perm[0][1].lineno if non_perm else shf.node.lineno, clause="C10.1")
        ok = True if draws else None
        for n, c in draws:
            conds = sa.conds_at(n)
            ok = ok and ("is", tuple(sorted((("const", None), ("param", pp)), key=repr))) in conds
        rets = [(n, t) for n, t in sa.returns() if t is not None and t[0] == "tuple" and len(t[1]) == 2
                and t[1][1] != ("const", None)]
        for n, t in rets:
            # returns (item[perm], perm) with the same perm
            ok = ok and t[1][0][0] == "sub" and _strip(t[1][0][2]) == _strip(t[1][1])
        # ... and a return that applies a permutation variable which may have been drawn in this call hands it back (returning None
        # instead makes the next item of the same batch draw a partner assignment of its own)
        drawn_nodes = {n_ for n_, _c in draws}
        for n, t in sa.returns():
            if t is None or t[0] != "tuple" or len(t[1]) != 2 or t[1][1] != ("const", None):
                continue
            first = t[1][0]
            if first[0] == "sub" and first[2][0] == "var" and (set(first[2][2]) & drawn_nodes or any(
                    sa.cfg.nodes[d_].kind != "entry" and d_ in drawn_nodes for d_ in first[2][2])):
                ok = False
        # the partner is mixed in place with the original: it must never be the original object itself
        rep.rule("G8.partner-not-aliased", "shuffle() never returns the tensor it was given (every return builds a new tensor: "
                 "clone / roll / flip / advanced indexing): the in-place mix own.mul_(L).add_(partner.mul_(1 - L)) is only a "
                 "convex combination when partner does not alias own")
        ip = ("param", shf.params()[1])
        alias = [n for n, t in sa.returns() if t is not None and ((t[0] == "tuple" and t[1] and t[1][0] == ip) or t == ip)]
        rep.decide(not alias, "G8.partner-not-aliased", shf, "returns-fresh-tensor", "every return builds a new tensor",
                   "shuffle returns its argument itself on some path (e.g. for a batch of one): the in-place mix then scales the "
                   "sample by 2*L*(1-L) instead of leaving it unchanged - labels no longer sum to one", line=sa.line(alias[0]) if alias
                   else shf.node.lineno, clause="C10.1")
        rep.decide(ok, "G4.partner-threading", shf, "reuse-given-permutation",
                   "a new permutation is drawn only when none was given; the one used is the one returned",
                   "shuffle draws a new permutation although one was given, or returns a different permutation than the one "
                   "it applied", clause="C10.1")

    # the collator reads / writes its items through ModeWrapper's mode helpers
    from .c01 import mode_positions
    mode_positions(prog, rep, prog.cls("ModeWrapper"), "C10.6")

    # ---- 2. convex form -------------------------------------------------------------------------------------------------
    rep.rule("G6.convex-mix", "every in-place mix has the form own.mul_(L).add_(partner.mul_(1 - L)) with one and the same L; "
             "partner is the first result of self.shuffle(item=own) (or the partner-indexed clone of own); L is a view / element "
             "of the variable stored as ctx['lambda'], and no definition of that variable lies between a mix and the "
             "ctx store")
    from ..rules.mixes import inplace_mixes
    mixes = inplace_mixes(fa)
    rep.floor("in-place mix statements", len(mixes), 4)
    lam_store = [(n, val) for n, var, val in fa.stores() if var == "ctx[]" and val is not None
                 and any(isinstance(t, ast.Subscript) and isinstance(t.slice, ast.Constant) and t.slice.value == "lambda"
                         for t in cfg.nodes[n].ast.targets)]
    lam_var = _name(lam_store[0][1]) if lam_store else None
    rep.decide(lam_var is not None, "G6.convex-mix", fi, "ctx-lambda", f"ctx['lambda'] = {lam_var}",
               "ctx['lambda'] is not stored from a local variable", clause="C10.2", nontrivial=False)
    for n, c, own, L1, inner in mixes:
        construct = f"mix:{' '.join(ast.unparse(c).split())[:80]}"
        ok_form = isinstance(inner, ast.Call) and isinstance(inner.func, ast.Attribute) and inner.func.attr in ("mul_", "mul") \
            and len(inner.args) == 1
        problems = []
        if not ok_form:
            rep.unk("G6.convex-mix", fi, construct, "mix statement of unrecognised shape", line=c.lineno, clause="C10.2")
            continue
        L = fa.sym.term(L1, n)
        w2 = term_to_poly(fa.sym.term(inner.args[0], n))
        Lp = term_to_poly(L)
        if not (len(Lp.terms) == 1 and len(Lp.atoms()) == 1 and Lp.coeff_of(next(iter(Lp.atoms()))).const_value() == 1):
            problems.append(f"the weight of the sample itself, {ast.unparse(L1)}, is not the reported lambda but an expression "
                            f"of it (own and partner weights exchanged?)")
        if w2 != Poly.const(1) - term_to_poly(L):
            problems.append(f"the partner weight {ast.unparse(inner.args[0])} is not 1 - {ast.unparse(L1)}")
        partner = fa.expand(inner.func.value, n)
        own_name = _base_name(fa.expand(own, n))
        # partner provenance
        prov = _partner_of(fa, partner, n, sh)
        if prov is None and not sh:
            rep.unk("G6.convex-mix", fi, construct, "no self.shuffle(...) call in collate: where the partner comes from is not "
                    "decided", line=c.lineno, clause="C10.2")
            continue
        if prov is None:
            problems.append(f"the partner {ast.unparse(partner)} does not come from self.shuffle / the partner index")
        elif prov != own_name:
            problems.append(f"the partner is a shuffle of '{prov}', not of '{own_name}'")
        # weight provenance
        if lam_var is not None:
            lf = {x[1] for x in leaves(L) if x[0] == "var"}
            base = _resolve_names(fa, L1, n)
            if lam_var not in base:
                problems.append(f"the weight {ast.unparse(L1)} is not derived from '{lam_var}', the value reported as "
                                f"ctx['lambda']")
            else:
                redefs = [m for m, var, val in fa.stores() if var == lam_var and cfg.reachable(n, m)
                          and any(cfg.reachable(m, s) for s, _ in lam_store)]
                if redefs:
                    problems.append(f"'{lam_var}' is re-assigned (line {fa.line(redefs[0])}) between this mix and the ctx "
                                    f"store: the reported weight is not the weight used")
        rep.decide(not problems, "G6.convex-mix", fi, construct, "L*own + (1-L)*partner with the reported L",
                   "; ".join(problems), line=c.lineno, clause="C10.2")

    # ---- partner rows are read from the batch as it was; the partner index is used in one direction ----------------------
    rep.rule("G8.partner-snapshot", "a partner that is gathered from the batch tensor itself (x[perm..]) is gathered before anything is "
             "written into that tensor - otherwise a row that was already pasted / mixed is handed on as someone's partner and "
             "carries pixels of a third sample; and the index vector used to gather partners is never used to scatter "
             "(index_copy_ / index_put_ / scatter_ / a store x[perm] = ..), which applies the inverse permutation: image and "
             "label would be mixed with different partners for every non-involutive shuffle")
    def _writes_into(name):
        out = []
        for m_, nd_ in cfg.nodes.items():
            st_ = nd_.ast if nd_.kind == "stmt" else None
            if isinstance(st_, (ast.Assign, ast.AugAssign)):
                tgs_ = st_.targets if isinstance(st_, ast.Assign) else [st_.target]
                for t_ in tgs_:
                    if isinstance(t_, ast.Subscript) and _base_name(t_) == name:
                        out.append(m_)
            for c_ in cfg.calls_at(m_):
                f_ = c_.func
                if isinstance(f_, ast.Attribute) and f_.attr.endswith("_") and not f_.attr.startswith("_") and \
                        _base_name(f_.value) == name:
                    out.append(m_)
        return out
    gather_idx = {}  # index variable -> gathered tensor name
    n_g = 0
    for n, c, own, L1, inner in mixes:
        if not (isinstance(inner, ast.Call) and isinstance(inner.func, ast.Attribute)):
            continue
        pexpr = inner.func.value
        # where is the partner value computed: at the mix itself, or where a temporary was bound
        sites_ = [(pexpr, n)]
        if isinstance(pexpr, ast.Name):
            sites_ = [(cfg.def_value(d_, pexpr.id), d_) for d_ in cfg.reaching().get(n, {}).get(pexpr.id, ())
                      if cfg.nodes[d_].kind != "entry" and cfg.def_value(d_, pexpr.id) is not None]
        for e_, at_ in sites_:
            for y in ast.walk(e_):
                if isinstance(y, ast.Subscript) and isinstance(y.value, ast.Name):
                    idx_ = y.slice.elts[0] if isinstance(y.slice, ast.Tuple) and y.slice.elts else y.slice
                    names_ = {z.id for z in ast.walk(idx_) if isinstance(z, ast.Name)}
                    src = y.value.id
                    own_base = _base_name(fa.expand(own, n))
                    if src != own_base or not names_:
                        continue
                    for nm_ in names_:
                        gather_idx.setdefault(nm_, src)
                    n_g += 1
                    late = [w for w in _writes_into(src) if w != at_ and cfg.reachable(w, at_) and w != n]
                    rep.decide(not late, "G8.partner-snapshot", fi, f"gather:{' '.join(ast.unparse(y).split())[:50]}",
                               "partners are gathered before the first write into the batch tensor",
                               f"{ast.unparse(y)[:50]} is gathered (line {fa.line(at_)}) after '{src}' was already written into (line "
                               f"{fa.line(late[0]) if late else 0}): a row that was pasted / mixed before is used as a partner",
                               line=fa.line(at_), clause="C10.1")
    for n_, c_ in fa.calls():
        f_ = c_.func
        if isinstance(f_, ast.Attribute) and f_.attr in ("index_copy_", "index_put_", "scatter_", "index_add_", "index_copy", "scatter"):
            used = {z.id for a_ in c_.args for z in ast.walk(a_) if isinstance(z, ast.Name)} & set(gather_idx)
            ixs = [a_ for a_ in c_.args[1:2] if isinstance(a_, ast.Name) and a_.id in gather_idx]
            if ixs:
                rep.bad("G8.partner-snapshot", fi, f"scatter:{' '.join(ast.unparse(c_).split())[:60]}", f"'{ixs[0].id}' gathers the "
                        f"partners elsewhere (x[{ixs[0].id}]) but is used here to scatter ({f_.attr}): that moves row i to position "
                        f"{ixs[0].id}[i] - the inverse permutation - so this part of the image comes from another partner than the "
                        f"label", line=c_.lineno, clause="C10.1")

    # cutmix: adjusted lambda and box come from one call and precede the paste and the label mix
    rep.rule("G8.cutmix-adjusted", "every paste x[..., a:b, c:d] = partner[..., a:b, c:d] uses identical slices on both sides, the "
             "box (a, c, b, d) unpacked from the bbox returned by self.get_random_bbox; the same call's second result is bound "
             "to the lambda variable (area-corrected weight) before the label mix on that path")
    pastes = [(n, nd.ast) for n, nd in cfg.nodes.items() if nd.kind == "stmt" and isinstance(nd.ast, ast.Assign)
              and isinstance(nd.ast.targets[0], ast.Subscript) and isinstance(nd.ast.value, ast.Subscript)
              and _has_slices(nd.ast.targets[0])]
    rep.floor("cutmix paste statements", len(pastes), 1)
    gb = [(n, c) for n, c in fa.calls_named("get_random_bbox")]
    for n, st in pastes:
        construct = f"paste:{' '.join(ast.unparse(st).split())[:80]}"
        ls, rs = _slices(st.targets[0]), _slices(st.value)
        same = [ast.dump(a) for a in ls] == [ast.dump(b) for b in rs] and len(ls) == 2
        problems = []
        if not same:
            problems.append("the pasted region and the source region differ")
        else:
            names4 = [_name(ls[0].lower), _name(ls[1].lower), _name(ls[0].upper), _name(ls[1].upper)]  # top, left, bot, right
            ok_unpack = False
            for m, nd in cfg.nodes.items():
                if nd.kind == "stmt" and isinstance(nd.ast, ast.Assign) and isinstance(nd.ast.targets[0], ast.Tuple) \
                        and [_name(e) for e in nd.ast.targets[0].elts] == names4 and cfg.dominates(m, n):
                    src = fa.expand(nd.ast.value, m)
                    bb = _base_name(src)
                    # bbox variable: at the unpack, every reaching definition is the first result of a
                    # get_random_bbox call (besides a None initialisation on paths without cutmix)
                    reach = cfg.reaching().get(m, {}).get(bb, set())
                    from_call = set()
                    for g, c in gb:
                        gst = cfg.nodes[g].ast
                        if isinstance(gst, ast.Assign) and isinstance(gst.targets[0], ast.Tuple) and _name(
                                gst.targets[0].elts[0]) == bb:
                            from_call.add(g)
                    rest = [d for d in reach - from_call if not _defines_none(fa, d, bb)]
                    if reach & from_call and not rest:
                        ok_unpack = True
            if not ok_unpack:
                problems.append("the box is not unpacked as (top, left, bot, right) = bbox[...] from a get_random_bbox result "
                                "in the order used by the slices")
        # per-sample paste: the source row is the partner of the target row
        def lead(sub_):
            sl_ = sub_.slice
            first = sl_.elts[0] if isinstance(sl_, ast.Tuple) and sl_.elts else sl_
            return first if not isinstance(first, (ast.Slice,)) and not (
                isinstance(first, ast.Constant) and first.value is Ellipsis) else None
        ti, si = lead(st.targets[0]), lead(st.value)
        if ti is not None and si is not None and isinstance(st.value.value, ast.Name):
            sh_first = {_name(cfg.nodes[sn].ast.targets[0].elts[0]) for sn, _c in sh
                        if isinstance(cfg.nodes[sn].ast, ast.Assign) and isinstance(cfg.nodes[sn].ast.targets[0], ast.Tuple)}
            P = st.value.value.id
            pdefs = [(d, cfg.def_value(d, P)) for d in cfg.reaching().get(n, {}).get(P, set()) if cfg.nodes[d].kind != "entry"]
            kinds = set()
            for d, v in pdefs:
                if isinstance(v, ast.Subscript) and isinstance(v.slice, ast.Name) and (
                        v.slice.id in sh_first or (_resolve_names(fa, v.slice, d) & sh_first)):
                    kinds.add("gathered")       # P = X[J]: row k of P is the partner of sample k
                elif isinstance(v, ast.Call) and isinstance(v.func, ast.Attribute) and v.func.attr == "clone":
                    kinds.add("clone")          # P = X.clone(): row J[i] of P is the partner of sample i
                elif P in sh_first:
                    kinds.add("gathered")       # P is the shuffled tensor itself
                else:
                    kinds.add("?")
            same_idx = ast.dump(ti) == ast.dump(si)
            via_j = isinstance(si, ast.Name) and bool(_resolve_names(fa, si, n) & sh_first) and not same_idx
            if not sh:
                pass  # no shuffle anchor: partner order of the source not decided
            elif kinds == {"gathered"} and not same_idx:
                problems.append(f"the source row of the paste is {ast.unparse(st.value.value)}[{ast.unparse(si)}], but "
                                f"{ast.unparse(st.value.value)} is already ordered by partner (row {ast.unparse(ti)} is the partner "
                                f"of sample {ast.unparse(ti)}): the box is taken from the partner's partner while the label is "
                                f"mixed with the partner")
            elif kinds == {"clone"} and not via_j:
                problems.append(f"the source row of the paste is {ast.unparse(st.value.value)}[{ast.unparse(si)}] of an unshuffled "
                                f"copy: the box is not taken from the partner the label is mixed with")
        rep.decide(not problems, "G8.cutmix-adjusted", fi, construct, "same region on both sides, box from get_random_bbox",
                   "; ".join(problems), line=st.lineno, clause="C10.2")
    for g, c in gb:
        gst = cfg.nodes[g].ast
        ok = isinstance(gst, ast.Assign) and isinstance(gst.targets[0], ast.Tuple) and len(gst.targets[0].elts) == 2
        lam_t = _name(gst.targets[0].elts[1]) if ok else None
        lam_arg = None
        for k in c.keywords:
            if k.arg == "lamb":
                lam_arg = _name(k.value)
        lam_expr = next((k.value for k in c.keywords if k.arg == "lamb"), c.args[2] if len(c.args) >= 3 else None)
        lam_arg = _name(lam_expr)
        flows = lam_t is not None and lam_var is not None and (lam_t == lam_var or _flows_into(fa, lam_t, lam_var, g))
        # the drawn (uncorrected) weight must be out of the game after the call: it is overwritten by the corrected one, was
        # never a variable of its own, or at least does not flow into the reported / label weight any more
        drawn_gone = lam_arg is None or lam_arg == lam_t or not (
            lam_var is not None and (lam_arg == lam_var or _flows_into(fa, lam_arg, lam_var, g)))
        rep.decide(ok and lam_t is not None and drawn_gone and flows, "G8.cutmix-adjusted", fi,
                   f"bbox-call:{' '.join(ast.unparse(gst).split())[:70]}",
                   "the area-corrected lambda replaces the drawn one and reaches ctx['lambda'] / the label mix",
                   "the area-corrected lambda returned by get_random_bbox is dropped or bound to a different variable than "
                   "the drawn one: labels are mixed with the drawn weight while the pasted area corresponds to the corrected "
                   "one", line=c.lineno, clause="C10.2")

    # ---- 3. per-sample indexing -------------------------------------------------------------------------------------------
    rep.rule("G5.per-sample-index", "inside the per-sample loop 'for i in range(batch_size)', tensors that hold one random "
             "parameter per sample (anything derived from self.rng draws or get_random_bbox: use-cutmix flags, lambdas, boxes) "
             "are indexed by the loop variable i itself - sample i's operation, box and weight are its own, exactly like the "
             "label weights lamb[i]; the partner index may only index data")
    loops = [(n, nd, nd.owner.target.id) for n, nd in cfg.nodes.items() if nd.kind == "next" and isinstance(nd.owner.target, ast.Name)
             and fa.sym.term(nd.owner.iter, cfg.stmt_node[nd.owner])[:2] == ("call", ("global", "range"))]
    tainted = _random_params(fa)
    n_idx = 0
    # for i, (a, b) in enumerate(zip(A, B)): i is the sample index, a / b are A[i] / B[i] by construction
    for n, nd in cfg.nodes.items():
        if nd.kind == "next" and isinstance(nd.owner.target, ast.Tuple) and len(nd.owner.target.elts) == 2 and isinstance(
                nd.owner.target.elts[0], ast.Name) and isinstance(nd.owner.iter, ast.Call) and _name(nd.owner.iter.func) == \
                "enumerate" and len(nd.owner.iter.args) == 1 and not nd.owner.iter.keywords:
            loops.append((n, nd, nd.owner.target.elts[0].id))
            inner_it = nd.owner.iter.args[0]
            if isinstance(inner_it, ast.Call) and _name(inner_it.func) == "zip":
                n_idx += sum(1 for a_ in inner_it.args if _name(a_) in tainted)
            elif _name(inner_it) in tainted:
                n_idx += 1
    for LN, nd, ivar in loops:
        I = ("var", ivar, frozenset({LN}))
        body = cfg.nodes_inside(nd.owner.body)
        for n in sorted(body):
            for x in cfg.walk_node(n):
                if isinstance(x, ast.Subscript) and isinstance(x.ctx, ast.Load) and _name(x.value) in tainted \
                        and not isinstance(x.slice, (ast.Slice, ast.Tuple)):
                    n_idx += 1
                    it = fa.sym.term(x.slice, n)
                    rep.decide(it == I, "G5.per-sample-index", fi, f"index:{ast.unparse(x)}",
                               f"{ast.unparse(x.value)} indexed by the loop variable",
                               f"per-sample parameter '{ast.unparse(x.value)}' is indexed by {ast.unparse(x.slice)} "
                               f"({show(it)}) instead of the loop variable: sample {ivar} is processed with "
                               f"another sample's flag / box / weight while its label uses its own", line=x.lineno,
                               clause="C10.3")
    rep.floor("per-sample parameter subscripts in the per-sample loop", n_idx, 0)

    # ---- 4. pass-through ---------------------------------------------------------------------------------------------------
    rep.rule("G9.items-pass-through", "set_item is called only for items fetched with get_item under the same literal item name, "
             "with the fetched (mixed) variable as value, under '<that variable> is not None'; a label that was unsqueezed "
             "for binary classification is squeezed back under the flag set at the unsqueeze")
    def _item_of(call: ast.Call, kw: str, pos: int):
        e = next((k.value for k in call.keywords if k.arg == kw), call.args[pos] if len(call.args) > pos else None)
        return e

    def _origins(name: str, at: int, depth: int = 6, seen=None) -> Set[str]:
        """Item names under which the object held by ``name`` at node ``at`` was fetched with get_item; '?' for a value of
        another origin.  Copies, None initialisations and tensor methods applied to the object (type / unsqueeze / squeeze /
        float ...) are looked through, over *all* reaching definitions."""
        seen = seen if seen is not None else set()
        out: Set[str] = set()
        for d in cfg.reaching().get(at, {}).get(name, set()):
            if (d, name) in seen:
                continue
            seen.add((d, name))
            if cfg.nodes[d].kind == "entry":
                out.add("?")
                continue
            val = cfg.def_value(d, name)
            if val is None:
                # in-place method call statements (x.mul_(..)) are recorded as definitions of the same object: skip them
                st_ = cfg.nodes[d].ast if cfg.nodes[d].kind == "stmt" else None
                if isinstance(st_, ast.Expr) or isinstance(st_, ast.AugAssign):
                    out |= _origins(name, d, depth, seen)
                else:
                    out.add("?")
                continue
            e = val
            while True:
                if isinstance(e, ast.Call) and isinstance(e.func, ast.Attribute) and not (
                        isinstance(e.func.value, ast.Name) and e.func.value.id == "ModeWrapper") and e.func.attr != "get_item":
                    e = e.func.value  # a tensor method on the object
                    continue
                break
            if isinstance(e, ast.Constant) and e.value is None:
                continue
            if isinstance(e, ast.Call) and isinstance(e.func, ast.Attribute) and e.func.attr == "get_item":
                it = _item_of(e, "item", 1)
                out.add(it.value if isinstance(it, ast.Constant) and isinstance(it.value, str) else "?")
            elif isinstance(e, ast.Name) and depth > 0:
                out |= _origins(e.id, d, depth - 1, seen)
            else:
                out.add("?")
        return out

    n_get = len(fa.calls_named("get_item"))
    for n, c in fa.calls_named("set_item"):
        it = _item_of(c, "item", 1)
        item = it.value if isinstance(it, ast.Constant) else None
        ve = _item_of(c, "value", 3)
        val = _name(ve)
        conds = fa.conds_at(n)
        guarded = any(cd[0] == "not" and cd[1][0] == "is" and any(x[0] == "var" and x[1] == val for x in cd[1][1])
                      for cd in conds)
        org = _origins(val, n) if val is not None else {"?"}
        ok = item is not None and org == {item} and guarded
        rep.decide(ok, "G9.items-pass-through", fi, f"set_item:{item}", f"writes back '{val}' fetched as item '{item}'",
                   f"set_item(item={item!r}) writes '{val}', which was fetched as {sorted(org)}" + (
                       "" if guarded else f" and is not guarded by '{val} is not None'"),
                   line=c.lineno, clause="C10.4")
    uns = [(n, c) for n, c in fa.calls_named("unsqueeze")]
    lab_names = {_name(c.func.value) for _, c in uns if isinstance(c.func, ast.Attribute)} - {None}
    for n_, _c in uns:
        st_ = cfg.nodes[n_].ast if cfg.nodes[n_].kind == "stmt" else None
        if isinstance(st_, ast.Assign):
            lab_names |= {_name(t_) for t_ in st_.targets} - {None}
    # (only squeezes of the label itself: index tensors are squeezed for other reasons)
    sqs = [(n, c) for n, c in fa.calls_named("squeeze") if isinstance(c.func, ast.Attribute) and (
        not lab_names or _name(c.func.value) in lab_names)]
    if uns:
        flags_set = {var for (n, _) in uns for m, var, val in fa.stores() if val is not None and "." not in var
                     and fa.sym.term(val, m) == ("const", True) and fa.conds_at(m) == fa.conds_at(n)}
        ok = bool(sqs) and all(any(cd[0] == "var" and cd[1] in flags_set for cd in fa.conds_at(n)) for n, _ in sqs)
        rep.decide(ok, "G9.items-pass-through", fi, "binary-squeeze", "squeezed back iff it was unsqueezed",
                   "the binary label is not squeezed back exactly when it was unsqueezed", clause="C10.4")

    bbox_fn(prog, rep, C)
    names.check(prog, rep, FILES, clause="C10.G1", floor=6)


def _defines_none(fa: FA, d: int, var: str) -> bool:
    st = fa.cfg.nodes[d].ast if fa.cfg.nodes[d].kind == "stmt" else None
    if isinstance(st, ast.Assign):
        if isinstance(st.value, ast.Constant) and st.value.value is None:
            return True
        if isinstance(st.value, ast.Tuple) and isinstance(st.targets[0], ast.Tuple):
            for t, v in zip(st.targets[0].elts, st.value.elts):
                if _name(t) == var and isinstance(v, ast.Constant) and v.value is None:
                    return True
    return False


def _base_name(e) -> Optional[str]:
    while isinstance(e, (ast.Subscript, ast.Attribute, ast.Call)):
        e = e.value if not isinstance(e, ast.Call) else e.func
    return _name(e)


def _has_slices(sub: ast.Subscript) -> bool:
    return len(_slices(sub)) >= 2


def _slices(sub: ast.Subscript) -> List[ast.Slice]:
    s = sub.slice
    elts = s.elts if isinstance(s, ast.Tuple) else [s]
    return [e for e in elts if isinstance(e, ast.Slice) and e.lower is not None and e.upper is not None]


def _partner_of(fa: FA, partner: ast.AST, at: int, shuffles) -> Optional[str]:
    """Name of the data variable the partner expression (temporaries already expanded) is a shuffle of."""
    nm = _base_name(partner)
    cfg = fa.cfg
    reach = cfg.reaching().get(at, {}).get(nm, set())
    # direct: X2 bound as first result of self.shuffle(item=X)
    for n, c in shuffles:
        st = cfg.nodes[n].ast
        if n in reach and isinstance(st, ast.Assign) and isinstance(st.targets[0], ast.Tuple) \
                and _name(st.targets[0].elts[0]) == nm:
            item = next((k.value for k in c.keywords if k.arg == "item"), c.args[0] if c.args else None)
            item = fa.expand(item, n) if item is not None else None
            if isinstance(item, ast.Name):
                return item.id
    # indexed clone: X_clone[j] with X_clone = X.clone() and j from the shuffled arange
    if isinstance(partner, ast.Subscript):
        for n, var, val in fa.stores():
            if var == nm and isinstance(val, ast.Call) and isinstance(val.func, ast.Attribute) and val.func.attr == "clone":
                sub0 = partner
                while isinstance(sub0, (ast.Subscript, ast.Attribute, ast.Call)) and not (
                        isinstance(sub0, ast.Subscript) and _name(sub0.value) == nm):
                    sub0 = sub0.value if not isinstance(sub0, ast.Call) else sub0.func
                if not isinstance(sub0, ast.Subscript):
                    continue
                idx = sub0.slice.elts[0] if isinstance(sub0.slice, ast.Tuple) else sub0.slice
                jt = fa.sym.term(idx, at)
                # j = shuffled_indices[i]
                names_ = {x[1] for x in leaves(jt) if x[0] == "var"}
                for sn, c in shuffles:
                    st = cfg.nodes[sn].ast
                    if isinstance(st, ast.Assign) and isinstance(st.targets[0], ast.Tuple) and _name(
                            st.targets[0].elts[0]) in names_ | _resolve_names(fa, idx, at):
                        return _base_name(fa.expand(val.func.value, n))
    # gathered copy: X[J] (possibly masked / sliced further) with J the shuffled index vector
    sh_first = set()
    for sn, c in shuffles:
        st = cfg.nodes[sn].ast
        if isinstance(st, ast.Assign) and isinstance(st.targets[0], ast.Tuple) and _name(st.targets[0].elts[0]):
            sh_first.add(_name(st.targets[0].elts[0]))
    e = partner
    chain = []
    while isinstance(e, (ast.Subscript, ast.Attribute, ast.Call)):
        if isinstance(e, ast.Subscript):
            chain.append(e)
        e = e.value if not isinstance(e, ast.Call) else e.func
    for sub0 in chain:
        if isinstance(sub0.value, ast.Name):
            idx = sub0.slice.elts[0] if isinstance(sub0.slice, ast.Tuple) else sub0.slice
            if isinstance(idx, ast.Name) and (idx.id in sh_first or (_resolve_names(fa, idx, at) & sh_first)):
                return sub0.value.id
            if isinstance(idx, ast.Subscript) and isinstance(idx.value, ast.Name) and (
                    idx.value.id in sh_first or (_resolve_names(fa, idx.value, at) & sh_first)):
                return sub0.value.id  # x[perm[sel]]: the partners of a selection of rows
    return None


def _resolve_names(fa: FA, e: ast.AST, at: int, depth=3) -> Set[str]:
    """Local names the expression is built from, following single-assignment definitions a few steps."""
    out: Set[str] = set()
    work = [(e, at, 0)]
    seen = set()
    while work:
        x, n, d = work.pop()
        for y in ast.walk(x):
            if isinstance(y, ast.Name) and isinstance(y.ctx, ast.Load):
                out.add(y.id)
                if d < depth:
                    for dn in fa.cfg.reaching().get(n, {}).get(y.id, ()):
                        val = fa.cfg.def_value(dn, y.id)
                        if val is None and fa.cfg.nodes[dn].kind == "next":
                            val = fa.cfg.nodes[dn].owner.iter  # a loop target is built from the sequence(s) it walks
                        if val is not None and (dn, y.id) not in seen:
                            seen.add((dn, y.id))
                            work.append((val, dn, d + 1))
    return out


def _flows_into(fa: FA, src: str, dst: str, after: int) -> bool:
    """Some definition of dst that is reachable from node `after` is computed from src."""
    for n, var, val in fa.stores():
        if var == dst and val is not None and fa.cfg.reachable(after, n):
            if src in {y.id for y in ast.walk(val) if isinstance(y, ast.Name)}:
                return True
    return False


def _random_params(fa: FA) -> Set[str]:
    """Locals whose value derives from self.rng draws or get_random_bbox (fixpoint over assignments)."""
    tainted: Set[str] = set()
    changed = True
    while changed:
        changed = False
        for n, var, val in fa.stores():
            if "." in var or var.endswith("[]") or var in tainted:
                continue
            st = fa.cfg.nodes[n].ast
            exprs = [val] if val is not None else ([st.value] if isinstance(st, ast.Assign) else [])
            hit = False
            for e in exprs:
                for y in ast.walk(e):
                    if isinstance(y, ast.Attribute) and isinstance(y.value, ast.Attribute) and y.value.attr == "rng" \
                            and _name(y.value.value) == fa.self_name:
                        hit = True
                    if isinstance(y, ast.Attribute) and y.attr == "get_random_bbox":
                        hit = True
                    if isinstance(y, ast.Name) and y.id in tainted:
                        hit = True
            if hit:
                tainted.add(var)
                changed = True
    return tainted


def bbox_fn(prog: Program, rep: Report, C):
    rep.rule("G6.bbox", "get_random_bbox: the four edges are clamp(center -/+ half, min=0 / max=extent) with the row edges built "
             "from the h-centre, h-half and h, the column edges from the w-centre, w-half and w; they are stacked in the order "
             "(top, left, bot, right); the corrected lambda is 1 - (bot - top) * (right - left) / (h * w) over the same four "
             "edges; the number of boxes is len(lamb)")
    fi = C.methods.get("get_random_bbox")
    rep.require(fi is not None, "anchor-missing: KDMixCollator.get_random_bbox")
    fa = fa_of(prog, fi)
    cfg = fa.cfg
    rep.analysed_add("functions", f"{fi.module.relpath}:{fi.qualname}")
    rets = [(n, fa.ret_ast(n)[0]) for n, nd in cfg.nodes.items() if nd.kind == "stmt" and isinstance(nd.ast, ast.Return)]
    if len(rets) != 1 or not (isinstance(rets[0][1], ast.Tuple) and len(rets[0][1].elts) == 2):
        rep.unk("G6.bbox", fi, "return", "get_random_bbox does not return one pair", clause="C10.5")
        return
    rn, rv = rets[0]
    bb, la = rv.elts
    # stack order
    bdefs = [(n, val) for n, var, val in fa.stores() if var == _name(bb)]
    edges = None
    if len(bdefs) == 1 and isinstance(bdefs[0][1], ast.Call) and bdefs[0][1].args and isinstance(bdefs[0][1].args[0], ast.List):
        edges = [_name(e) for e in bdefs[0][1].args[0].elts]
    if not edges or len(edges) != 4 or None in edges:
        rep.unk("G6.bbox", fi, "stack", "bbox is not a stack of four edge variables", clause="C10.5")
        return
    roles = []
    for e in edges:
        d = [(n, val) for n, var, val in fa.stores() if var == e]
        role = None
        if len(d) == 1 and d[0][1] is not None:
            t = fa.sym.term(d[0][1], d[0][0])
            cl = [y for y in ast.walk(d[0][1]) if isinstance(y, ast.Call) and isinstance(y.func, ast.Attribute)
                  and y.func.attr == "clamp" and y.args]
            # the clamp is the edge itself (casts aside); a clamp buried in further arithmetic (a mirrored spelling such as
            # w - clamp(w - c - r, min=0)) is another construction: not decided
            top_ = d[0][1]
            while isinstance(top_, ast.Call) and isinstance(top_.func, ast.Attribute) and top_.func.attr in (
                    "type", "long", "int", "to", "float") and not (top_.func.attr == "clamp"):
                top_ = top_.func.value
            if len(cl) == 1 and top_ is cl[0]:
                call = cl[0]
                kws = {k.arg: fa.sym.term(k.value, d[0][0]) for k in call.keywords}
                dims = _dims_of(fa, call.args[0], d[0][0])
                dim = next(iter(dims)) if len(dims) == 1 else "mixed:" + "+".join(sorted(dims))
                if "min" in kws and "max" not in kws:
                    role = (dim, "low", kws["min"] == ("const", 0) and _sign_ok(fa, d[0][1], "-"))
                elif "max" in kws and "min" not in kws:
                    role = (dim, "high", kws["max"] == ("param", dim) and _sign_ok(fa, d[0][1], "+"))
        roles.append(role)
    ps = fi.params()
    hp, wp = (ps[1], ps[2]) if len(ps) >= 3 else ("h", "w")
    want = [(hp, "low", True), (wp, "low", True), (hp, "high", True), (wp, "high", True)]
    rep.decide(None if None in roles else roles == want, "G6.bbox", fi, "edges",
               "stack([clamp(hc - hh, min=0), clamp(wc - wh, min=0), clamp(hc + hh, max=h), clamp(wc + wh, max=w)])",
               f"the stacked edges have roles {roles}, expected {want} (top, left, bot, right): boxes leave the image or rows "
               f"and columns are exchanged", clause="C10.5")
    # corrected lambda
    ldefs = [(n, val) for n, var, val in fa.stores() if var == _name(la)]
    if len(ldefs) == 1 and ldefs[0][1] is not None:
        top, left, bot, right = edges
        exp_src = f"1.0 - ({bot} - {top}) * ({right} - {left}) / ({hp} * {wp})"
        exp = ast.parse(exp_src, mode="eval").body
        got = _strip(fa.sym.term(ldefs[0][1], ldefs[0][0]))
        want_t = _strip(fa.sym.term(exp, ldefs[0][0]))
        rep.decide(got == want_t, "G6.bbox", fi, "corrected-lambda", f"lambda = {exp_src}",
                   f"the corrected lambda is {ast.unparse(ldefs[0][1])}, not {exp_src}: the label weight does not equal the "
                   f"retained pixel fraction of the pasted box", line=fa.line(ldefs[0][0]), clause="C10.5")
    else:
        rep.unk("G6.bbox", fi, "corrected-lambda", "corrected lambda not defined by a single assignment", clause="C10.5")
    nb = [(n, val) for n, var, val in fa.stores() if val is not None and fa.sym.term(val, n) ==
          ("call", ("global", "len"), (("param", ps[3] if len(ps) > 3 else "lamb"),), ())]
    rep.decide(bool(nb), "G6.bbox", fi, "one-box-per-lambda", "number of boxes = len(lamb)",
               "the number of boxes is not len(lamb): boxes and per-sample lambdas are not in one-to-one correspondence",
               clause="C10.5", nontrivial=False)


def _dim_letters(names_, fa):
    return names_


def _dims_of(fa: FA, e: ast.AST, at: int) -> Set[str]:
    """Which of the function's size parameters the expression (transitively) depends on."""
    from ..deps import Deps
    d = Deps(fa, control=False).of(e, at)
    ps = fa.fi.params()
    return {x[1] for x in d if x[0] == "param" and x[1] in ps[1:3]}


def _sign_ok(fa: FA, e: ast.AST, sign: str) -> bool:
    """the clamp argument is <centre> - <half> (low edge) or <centre> + <half> (high edge)"""
    for y in ast.walk(e):
        if isinstance(y, ast.Call) and isinstance(y.func, ast.Attribute) and y.func.attr == "clamp" and y.args:
            a = y.args[0]
            if isinstance(a, ast.BinOp):
                return isinstance(a.op, ast.Sub if sign == "-" else ast.Add)
    return False
