"""Role discovery in InterleavedSampler._training_loop / _eval_loop / __init__ (shared by C04, C05, C06).

Roles are found by dataflow relative to API-level names (``self.start_epoch``, ``self.main_sampler``,
``self.configs``, ``config.sampler`` ...), never by the names of locals.
"""
from __future__ import annotations

import ast
from dataclasses import dataclass, field
from typing import Dict, List, Optional, Set, Tuple

from ..fa import FA, fa_of
from ..model import AnalysisError, FuncInfo, Program
from ..sym import Poly, Term, contains, leaves, show, term_to_poly

FILE = "kappadata/samplers/interleaved_sampler.py"


def yields_at(fa: FA, n: int) -> List[ast.Yield]:
    return [x for x in fa.cfg.walk_node(n) if isinstance(x, ast.Yield)]


@dataclass
class PassLoop:
    """One 'iterate a config's sampler' loop."""
    iter_node: int
    next_node: int
    loop: ast.For
    cfg_term: Term  # term of the config object whose sampler is iterated
    idx_var: str
    yields: List[int] = field(default_factory=list)


class Roles:
    def __init__(self, prog: Program, method: str):
        self.prog = prog
        self.fi = prog.method("InterleavedSampler", method, own=True)
        self.fa = fa_of(prog, self.fi)
        fa = self.fa
        cfg = fa.cfg
        # loops
        self.main_iter = self.main_next = None
        self.main_loop = None
        self.main_bound: Optional[Term] = None  # islice(self.main_sampler, <bound>): the epoch is cut by the iterator itself
        self.main_source_node: Optional[int] = None  # where that iterator is created (iter() is taken there, not at the loop)
        self.cfg_iter = self.cfg_next = None
        self.cfg_loop = None
        self.cfg_idx_var = self.cfg_var = None
        self.zip_with: Dict[str, Term] = {}  # loop target -> the sequence it walks in step with self.configs (zip)
        self.passes: List[PassLoop] = []
        # a traversal of self.configs that yields nothing (a table computed per config ahead of the epoch loop) is not the
        # config loop when another traversal does yield
        def _cfg_trav(n_, nd_):
            t_ = fa.sym.term(nd_.owner.iter, n_)
            return contains(t_, ("self", "configs")) and not (t_[0] == "attr" and t_[2] == "sampler")

        def _yields(loop_):
            return any(isinstance(x_, (ast.Yield, ast.YieldFrom)) for b_ in loop_.body for x_ in ast.walk(b_))
        travs = [(n_, nd_) for n_, nd_ in cfg.nodes.items() if nd_.kind == "iter" and _cfg_trav(n_, nd_)]
        silent = {n_ for n_, nd_ in travs if not _yields(nd_.owner)}
        if len(silent) == len(travs):
            silent = set()
        for n, nd in cfg.nodes.items():
            if nd.kind != "iter" or n in silent:
                continue
            loop = nd.owner
            it = fa.sym.term(loop.iter, n)
            nxt = cfg.out_edge(n, None)
            sl = _islice_of(fa, loop.iter, n)
            if sl is not None and sl[0] == ("self", "main_sampler"):
                # for i in islice(self.main_sampler, L): the loop ends by itself after L indices
                self.main_iter, self.main_next, self.main_loop = n, nxt, loop
                self.main_bound = sl[1]
                self.main_source_node = sl[2]
            elif it == ("self", "main_sampler"):
                self.main_iter, self.main_next, self.main_loop = n, nxt, loop
            elif it == ("call", ("global", "enumerate"), (("self", "configs"),), ()):
                self.cfg_iter, self.cfg_next, self.cfg_loop = n, nxt, loop
                if isinstance(loop.target, ast.Tuple) and len(loop.target.elts) == 2 and all(
                        isinstance(e, ast.Name) for e in loop.target.elts):
                    self.cfg_idx_var, self.cfg_var = loop.target.elts[0].id, loop.target.elts[1].id
            elif it == ("self", "configs"):
                self.cfg_iter, self.cfg_next, self.cfg_loop = n, nxt, loop
                if isinstance(loop.target, ast.Name):
                    self.cfg_var = loop.target.id
            elif it[0] == "call" and it[1] == ("global", "zip") and not it[3] and ("self", "configs") in it[2] and \
                    isinstance(loop.target, ast.Tuple) and len(loop.target.elts) == len(it[2]) and all(
                        isinstance(e, ast.Name) for e in loop.target.elts):
                # for a, config in zip(A, self.configs): 'a' is the element of A at the position of the current config
                self.cfg_iter, self.cfg_next, self.cfg_loop = n, nxt, loop
                for e, seq in zip(loop.target.elts, it[2]):
                    if seq == ("self", "configs") and self.cfg_var is None:
                        self.cfg_var = e.id
                    else:
                        self.zip_with[e.id] = seq
            elif contains(it, ("self", "configs")) and not (it[0] == "attr" and it[2] == "sampler"):
                # some other traversal of self.configs (reversed, sorted, sliced ...): the config loop, in an
                # order the properties' rules then judge
                self.cfg_iter, self.cfg_next, self.cfg_loop = n, nxt, loop
                tg = loop.target
                if isinstance(tg, ast.Tuple) and len(tg.elts) == 2 and all(isinstance(e, ast.Name) for e in tg.elts):
                    self.cfg_idx_var, self.cfg_var = tg.elts[0].id, tg.elts[1].id
                elif isinstance(tg, ast.Name):
                    self.cfg_var = tg.id
            elif it[0] == "attr" and it[2] == "sampler" and isinstance(loop.target, ast.Name):
                self.passes.append(PassLoop(n, nxt, loop, it[1], loop.target.id))
            elif it[0] == "call" and it[1] == ("global", "enumerate") and len(it[2]) == 1 and it[2][0][0] == "attr" and \
                    it[2][0][2] == "sampler" and isinstance(loop.target, ast.Tuple) and len(loop.target.elts) == 2 and \
                    all(isinstance(e, ast.Name) for e in loop.target.elts):
                # for k, i in enumerate(config.sampler): a pass with a running position
                self.passes.append(PassLoop(n, nxt, loop, it[2][0][1], loop.target.elts[1].id))
        # the main sampler consumed in chunks: 'it = iter(self.main_sampler)' + islice per update (no per-index loop)
        self.chunk_source_node: Optional[int] = None
        if self.main_iter is None:
            srcs = [n_ for n_, c_ in fa.calls() if isinstance(c_.func, ast.Name) and c_.func.id == "iter" and len(c_.args) == 1
                    and not c_.keywords and fa.sym.term(c_.args[0], n_) == ("self", "main_sampler")]
            if len(srcs) == 1:
                self.chunk_source_node = srcs[0]
        # yields
        self.main_yields: List[int] = []
        self.other_yields: List[int] = []
        for n, nd in cfg.nodes.items():
            for y in yields_at(fa, n):
                if not (isinstance(y.value, ast.Tuple) and len(y.value.elts) == 2):
                    self.other_yields.append(n)
                    continue
                v = fa.sym.term(y.value.elts[1], n)
                if self.main_next is not None and v[0] == "var" and v[2] == frozenset({self.main_next}):
                    self.main_yields.append(n)
                else:
                    placed = False
                    for p in self.passes:
                        if ("var", p.idx_var, frozenset({p.next_node})) in leaves(v):
                            p.yields.append(n)
                            placed = True
                    if not placed:
                        self.other_yields.append(n)

    # ---- helpers ------------------------------------------------------------------------------------
    def counter_from(self, start_attr: str) -> Optional[str]:
        """The progress counter of that unit: the local initialised from self.<start_attr> that is
        also *incremented* somewhere (other locals may legitimately start from the same checkpoint
        value, e.g. the 'sample counter at the last update' bookkeeping)."""
        cands = self.locals_from(start_attr)
        counting = [v for v in cands if any(c is not None and c > 0 for _, c in self.increments(v))]
        if len(counting) == 1:
            return counting[0]
        return None

    def snapshots_of(self, counter: str) -> List[str]:
        """Locals that somewhere take a copy of the given counter (``last = counter``)."""
        out = []
        for n in sorted(self.fa.cfg.nodes):
            for var, tgt, val in self.fa.cfg.defs_at(n):
                if val is not None and "." not in var and var != counter and var not in out:
                    t = self.fa.sym.term(val, n)
                    if t[0] == "var" and t[1] == counter:
                        out.append(var)
        return out

    def locals_from(self, start_attr: str) -> List[str]:
        out = []
        for n in sorted(self.fa.cfg.nodes):
            for var, tgt, val in self.fa.cfg.defs_at(n):
                if val is not None and "." not in var and self.fa.sym.term(val, n) == ("self", start_attr) \
                        and var not in out:
                    out.append(var)
        return out

    def defs_of(self, var: str) -> List[Tuple[int, Optional[ast.AST], ast.AST]]:
        out = []
        for n in sorted(self.fa.cfg.nodes):
            nd = self.fa.cfg.nodes[n]
            if nd.kind == "entry":
                continue
            for v, tgt, val in self.fa.cfg.defs_at(n):
                if v == var:
                    out.append((n, val, nd.ast))
        return out

    def increments(self, var: str) -> List[Tuple[int, Optional[int]]]:
        """(node, constant amount or None) for ``var += c`` / ``var = var + c`` statements."""
        out = []
        for n, val, st in self.defs_of(var):
            if isinstance(st, ast.AugAssign) and isinstance(st.op, ast.Add):
                c = term_to_poly(self.fa.sym.term(st.value, n)).const_value()
                out.append((n, int(c) if c is not None and c.denominator == 1 else None))
            elif isinstance(st, ast.Assign) and val is not None:
                p = term_to_poly(self.fa.sym.term(val, n))
                prev = [a for a in p.atoms() if a[0] == "var" and a[1] == var]
                if len(prev) == 1 and p.coeff_of(prev[0]).const_value() == 1:
                    rest = p - Poly.atom(prev[0])
                    c = rest.const_value()
                    if c is not None:
                        out.append((n, int(c) if c.denominator == 1 else None))
        return out

    def loop_body_nodes(self, loop_next: int) -> Set[int]:
        key = ("body", loop_next)
        c = self.__dict__.setdefault("_lb", {})
        if key not in c:
            loop = self.fa.cfg.nodes[loop_next].owner
            c[key] = self.fa.cfg.nodes_inside(loop.body)
        return c[key]

    def within_iteration(self, loop_next: int, src: int, dst: int, through: Set[int]) -> bool:
        """Every path src ->* dst that stays inside one iteration of the loop (stays lexically inside
        the loop body and does not pass its 'next' node) goes through a node of ``through``."""
        cfg = self.fa.cfg
        if src in through:
            return True
        if src == dst:
            return False
        return not cfg.reachable(src, dst, avoid=set(through) | {loop_next}, within=self.loop_body_nodes(loop_next))

    def iteration_ends_through(self, loop_next: int, src: int, through: Set[int]) -> bool:
        """Every path from src that ends the current iteration of the loop *normally* - by reaching the
        loop's 'next' node or by leaving the loop body (break) - passes a node of ``through``.  Paths that
        leave the function (return / raise) are exempt."""
        cfg = self.fa.cfg
        body = self.loop_body_nodes(loop_next)
        if src in through:
            return True
        seen = {src}
        stack = [src]
        while stack:
            n = stack.pop()
            for m in cfg.g.successors(n):
                if m in through:
                    continue
                if m == loop_next:
                    return False
                if m not in body:
                    if m in (cfg.exit, cfg.raise_exit):
                        continue
                    return False
                if m not in seen:
                    seen.add(m)
                    stack.append(m)
        return True

    def same_iteration_path(self, loop_next: int, a: int, b: int) -> bool:
        """b can execute after a within one iteration of the loop."""
        return self.fa.cfg.reachable(a, b, avoid={loop_next}, within=self.loop_body_nodes(loop_next))

    def body_entry(self, loop_next: int) -> int:
        return self.fa.cfg.out_edge(loop_next, True)

    def nearest_test(self, n: int, inside_next: Optional[int] = None) -> Optional[Tuple[int, bool]]:
        """Innermost dominating branch decision (test node, label) of node n."""
        preds = self.fa.cfg.control_predicates(n)
        preds = [(t, lab) for t, lab in preds if self.fa.cfg.nodes[t].kind == "test"]
        return preds[-1] if preds else None

    def line(self, n: int) -> int:
        return self.fa.cfg.nodes[n].lineno

    def term_at(self, n: int) -> Term:
        return self.fa.sym.term(self.fa.cfg.nodes[n].ast, n)


def _islice_of(fa: FA, e: ast.AST, at: int):
    """e (a loop's iterable) is islice(X, L), directly or through a local bound once: -> (term of X, term of L, node where the
    islice object is created).  itertools.islice calls iter(X) when it is created."""
    node = at
    if isinstance(e, ast.Name):
        defs = [d for d in fa.cfg.reaching().get(at, {}).get(e.id, ()) if fa.cfg.nodes[d].kind != "entry"]
        if len(defs) != 1:
            return None
        node = defs[0]
        e = fa.cfg.def_value(node, e.id)
    if isinstance(e, ast.Call) and ((isinstance(e.func, ast.Name) and e.func.id == "islice") or (
            isinstance(e.func, ast.Attribute) and e.func.attr == "islice")) and len(e.args) == 2 and not e.keywords:
        return fa.sym.term(e.args[0], node), fa.sym.term(e.args[1], node), node
    return None


def eq_atoms(t: Term) -> List[Term]:
    """The 'lhs - rhs' polynomials of the equality disjuncts of a condition."""
    if t[0] == "or":
        out = []
        for x in t[1]:
            out += eq_atoms(x)
        return out
    if t[0] == "eq":
        return [t[1]]
    return []


def split_eq(poly_t: Term) -> Optional[Tuple[Term, Term]]:
    """a - b == 0 with two atoms -> (a, b) (order by sign: positive first)."""
    p = term_to_poly(poly_t)
    if len(p.terms) != 2 or () in p.terms:
        return None
    items = list(p.terms.items())
    if not all(len(k) == 1 and k[0][1] == 1 for k, _ in items):
        return None
    (k1, v1), (k2, v2) = items
    if v1 == 1 and v2 == -1:
        return k1[0][0], k2[0][0]
    if v1 == -1 and v2 == 1:
        return k2[0][0], k1[0][0]
    return None


# ---- path conditions as boolean formulas ------------------------------------------------------------------------------------
class GiveUp(Exception):
    pass


def formula_of(t: Term, env) -> tuple:
    """Boolean structure of a condition term: ('and'|'or', [..]) | ('not', f) | ('const', b) | ('atom', term).  Ordering atoms are
    kept in one orientation ('le' is the negation of the mirrored 'lt', 'ne' of 'eq'); boolean locals are replaced by what the
    path stored in them (env)."""
    from ..sym import negate
    if not isinstance(t, tuple) or not t:
        return ("atom", t)
    k = t[0]
    if k in ("and", "or"):
        return (k, [formula_of(x, env) for x in t[1]])
    if k == "not":
        return ("not", formula_of(t[1], env))
    if k == "const" and isinstance(t[1], bool):
        return t
    if k == "ifexp":
        c = formula_of(t[1], env)
        return ("or", [("and", [c, formula_of(t[2], env)]), ("and", [("not", c), formula_of(t[3], env)])])
    if k == "ne":
        return ("not", ("atom", ("eq", t[1])))
    if k == "le":
        return ("not", ("atom", negate(t)))
    if k == "var" and "." not in t[1] and t[1] in env:
        return env[t[1]]
    return ("atom", t)


def path_condition(fa: FA, start: int, targets: Set[int], within: Set[int], barrier: Set[int] = frozenset(), limit: int = 20000):
    """The condition under which control gets from ``start`` to one of ``targets`` without leaving ``within`` or passing a barrier
    node: OR over the paths of the conjunction of their branch conditions.  for-loops on the way are stepped over (their body is
    not entered; locals assigned in it are forgotten); a while loop or a cycle makes the analysis give up.
    -> (formula, number of paths)"""
    cfg = fa.cfg
    paths: List[tuple] = []
    budget = [limit]

    def assigned_in(loop) -> Set[str]:
        return {n.id for b in loop.body for n in ast.walk(b) if isinstance(n, ast.Name) and isinstance(n.ctx, ast.Store)}

    def walk(n, env, conds, seen):
        budget[0] -= 1
        if budget[0] < 0:
            raise GiveUp("too many paths")
        if n in targets:
            paths.append(("and", list(conds)))
            return
        if n in barrier or n not in within:
            return
        if n in seen:
            if cfg.nodes[n].kind == "next":
                return  # back at the head of a loop that was entered for the target: this iteration did not reach it
            raise GiveUp("a cycle lies on the way")
        nd = cfg.nodes[n]
        seen = seen | {n}
        if nd.kind == "next":
            out = cfg.out_edge(n, False)
            env2 = {k: v for k, v in env.items() if k not in assigned_in(nd.owner)}
            if any(t_ in cfg.nodes_inside(nd.owner.body) for t_ in targets):
                # the target lies in this loop: the condition of reaching it within one (any) iteration
                inner = cfg.out_edge(n, True)
                if inner is not None:
                    walk(inner, env2, conds, seen)
                return
            if out is not None:
                walk(out, env2, conds, seen)
            return
        if nd.kind == "test":
            if isinstance(nd.owner, ast.While):
                raise GiveUp("a while loop lies on the way")
            f = formula_of(fa.sym.term(nd.ast, n), env)
            if isinstance(nd.owner, ast.Assert):
                m = cfg.out_edge(n, True)
                if m is not None:
                    walk(m, env, conds, seen)
                return
            for lab in (True, False):
                m = cfg.out_edge(n, lab)
                if m is not None:
                    walk(m, env, conds + [f if lab else ("not", f)], seen)
            return
        if nd.kind == "stmt":
            new_env = None
            for var, tgt, val in cfg.defs_at(n):
                if "." in var or "[" in var:
                    continue
                new_env = dict(env) if new_env is None else new_env
                st = nd.ast
                if isinstance(st, ast.AugAssign) and isinstance(st.op, (ast.BitOr, ast.BitAnd)) and var in env:
                    rhs = formula_of(fa.sym.term(st.value, n), env)
                    new_env[var] = ("or" if isinstance(st.op, ast.BitOr) else "and", [env[var], rhs])
                elif val is not None and isinstance(st, (ast.Assign, ast.AnnAssign)) and isinstance(tgt, ast.Name):
                    new_env[var] = formula_of(fa.sym.term(val, n), env)
                else:
                    new_env.pop(var, None)
            env = new_env if new_env is not None else env
        for m in cfg.g.successors(n):
            if m in (cfg.exit, cfg.raise_exit) and m not in targets:
                continue
            walk(m, env, conds, seen)

    walk(start, {}, [], frozenset())
    return ("or", paths), len(paths)


def formula_atoms(f, out=None) -> List[Term]:
    out = [] if out is None else out
    if f[0] in ("and", "or"):
        for x in f[1]:
            formula_atoms(x, out)
    elif f[0] == "not":
        formula_atoms(f[1], out)
    elif f[0] == "atom" and f[1] not in out:
        out.append(f[1])
    return out


def formula_eval(f, val) -> bool:
    k = f[0]
    if k == "and":
        return all(formula_eval(x, val) for x in f[1])
    if k == "or":
        return any(formula_eval(x, val) for x in f[1])
    if k == "not":
        return not formula_eval(f[1], val)
    if k == "const":
        return bool(f[1])
    return val[f[1]]
