"""C20 - the global-to-local copy is crash-safe and idempotent (DESIGN §4 C20).

Crash-closure typestate.  The file-system effects of ``copy_folder_from_global_to_local`` (and its image-folder twin) are
abstracted by the effect table below into transitions over the persistent state

    (dst present?, start marker?, end marker?, data in {none, partial, complete}, origin in {none, user, auto})

The function's CFG is executed over this finite domain (tests on the marker / folder paths are decided by the state, all
other tests are explored both ways).  A crash may happen after every effect and inside every non-atomic effect (rmtree,
copytree, extractall, the unzip jobs): the persistent states left behind are fed back as start states until the set is
closed.  No file is touched and nothing from /repo is executed.
"""
from __future__ import annotations

import ast
from typing import Dict, FrozenSet, List, Optional, Set, Tuple

from ..core import Report
from ..fa import FA, fa_of
from ..model import FuncInfo, Program
from ..rules import names
from ..sym import Term, contains, leaves, negate, show, subterms

FILES = ["kappadata/copying/folder.py", "kappadata/copying/image_folder.py", "kappadata/copying/copying_utils.py"]
FUNCS = [("kappadata/copying/folder.py", "copy_folder_from_global_to_local"),
         ("kappadata/copying/image_folder.py", "copy_imagefolder_from_global_to_local")]
NON_ATOMIC_COPY = {"copytree", "extractall"}  # + every package function whose name starts with 'unzip'

# persistent state: (dst, start, end, data, origin)
EMPTY = (False, False, False, "none", "none")
USER = (True, False, False, "complete", "user")


def _fmt(s) -> str:
    return f"dst={'y' if s[0] else 'n'},start={'y' if s[1] else 'n'},end={'y' if s[2] else 'n'},data={s[3]},origin={s[4]}"


def _is_entrywise_wipe(fn: ast.FunctionDef, pos, call: ast.Call) -> bool:
    """fn(path) deletes the entries of the folder `path` one by one, every entry, without looking at their names, and keeps the
    folder: `for name in [sorted](os.listdir(p) | p.iterdir() | os.scandir(p)): <rmtree / unlink / remove of the entry>`, the only
    tests being kind tests of the entry (is_dir / is_symlink / isdir / islink / is_file / isfile).  The start marker is one of the
    entries, so it vanishes at an unspecified point of the sequence - the abstraction of rmtree minus the removal of the folder.
    Anything else (a name comparison, continue / break, a second loop, renames) is not recognised: the caller treats the
    helper as an unknown destructive effect (undecided)."""
    params = [a.arg for a in fn.args.posonlyargs + fn.args.args]
    if pos is None:
        kw = [k.arg for k in call.keywords]
        par = next((k for k in kw if k in params), None)
        if par is None or len(kw) != 1:
            return False
    else:
        if pos >= len(params):
            return False
        par = params[pos]
    aliases = {par}
    loops = [y for y in ast.walk(fn) if isinstance(y, (ast.For, ast.While, ast.AsyncFor))]
    if len(loops) != 1 or not isinstance(loops[0], ast.For) or loops[0].orelse:
        return False
    loop = loops[0]
    for st in fn.body:
        if st is loop:
            continue
        if isinstance(st, ast.Expr) and isinstance(st.value, ast.Constant):
            continue  # docstring
        if isinstance(st, ast.Assign) and len(st.targets) == 1 and isinstance(st.targets[0], ast.Name) and isinstance(st.value, ast.Call) \
                and getattr(st.value.func, "id", "") == "Path" and len(st.value.args) == 1 and isinstance(st.value.args[0], ast.Name) \
                and st.value.args[0].id in aliases:
            aliases.add(st.targets[0].id)
            continue
        return False
    it = loop.iter
    if isinstance(it, ast.Call) and getattr(it.func, "id", "") in ("sorted", "list", "tuple") and len(it.args) == 1 and not it.keywords:
        it = it.args[0]
    if not isinstance(it, ast.Call):
        return False
    fnm = getattr(it.func, "attr", getattr(it.func, "id", ""))
    if fnm in ("listdir", "scandir") and len(it.args) == 1 and isinstance(it.args[0], ast.Name) and it.args[0].id in aliases:
        pass
    elif fnm == "iterdir" and isinstance(it.func, ast.Attribute) and isinstance(it.func.value, ast.Name) and it.func.value.id in aliases \
            and not it.args:
        pass
    else:
        return False
    if not isinstance(loop.target, ast.Name):
        return False
    banned = (ast.Compare, ast.Continue, ast.Break, ast.Return, ast.Raise, ast.Try, ast.With, ast.Lambda, ast.FunctionDef)
    deletes = 0
    for st in loop.body:
        for y in ast.walk(st):
            if isinstance(y, banned):
                return False
            if isinstance(y, ast.Call):
                cn = getattr(y.func, "attr", getattr(y.func, "id", ""))
                if cn in ("rmtree", "unlink", "remove"):
                    deletes += 1
                elif cn not in ("is_dir", "is_symlink", "is_file", "isdir", "islink", "isfile", "join", "Path"):
                    return False
            if isinstance(y, ast.If):
                # every arm deletes: an arm without a deletion skips entries
                for arm in (y.body, y.orelse):
                    if not any(isinstance(z, ast.Call) and getattr(z.func, "attr", getattr(z.func, "id", "")) in
                               ("rmtree", "unlink", "remove") for s2 in arm for z in ast.walk(s2)):
                        return False
    return deletes >= 1


class Model:
    """Effect / test classification of the nodes of one copy function."""

    def __init__(self, prog: Program, fi: FuncInfo):
        self.prog, self.fi = prog, fi
        self.fa = fa_of(prog, fi)
        fa, cfg = self.fa, self.fa.cfg
        # roles: the destination folder and the two marker files
        self.dst = self.start = self.end = None
        self.end_parent = self.end_sibling_of = None
        for n, var, val in fa.stores():
            if val is None:
                continue
            consts = [y.value for y in ast.walk(val) if isinstance(y, ast.Constant) and isinstance(y.value, str)]
            if isinstance(val, ast.BinOp) and not consts:
                # the marker name may be a module-level constant: its value is in the normal form of the right operand
                t = fa.sym.term(val.right, n)
                consts = [t[1]] if t[0] == "const" and isinstance(t[1], str) else []
            if any("start" in c for c in consts) and isinstance(val, ast.BinOp):
                self.start, self.dst = var, getattr(val.left, "id", None)
            if any("end" in c for c in consts) and isinstance(val, ast.BinOp):
                self.end = var
                self.end_parent = getattr(val.left, "id", None)
            if any("end" in c for c in consts) and isinstance(val, ast.Call) and isinstance(val.func, ast.Attribute) and \
                    val.func.attr == "with_name" and isinstance(val.func.value, ast.Name):
                # <start marker>.with_name("...end..."): a sibling of the start marker, i.e. a child of the same folder
                self.end = var
                self.end_sibling_of = val.func.value.id
        self.kind: Dict[int, Tuple[str, str]] = {}
        for n in sorted(cfg.nodes):
            nd = cfg.nodes[n]
            k = self._classify(n, nd)
            if k:
                self.kind[n] = k

    def _role(self, e: ast.AST) -> Optional[str]:
        nm = e.id if isinstance(e, ast.Name) else None
        return {self.dst: "dst", self.start: "start", self.end: "end"}.get(nm) if nm else None

    def _is_ancestor(self, e: ast.AST) -> bool:
        """e names a path the destination folder is built from (dst = e / relative_path)."""
        nm = e.id if isinstance(e, ast.Name) else None
        if nm is None or nm == self.dst:
            return False
        for n, var, val in self.fa.stores():
            if var == self.dst and val is not None and any(isinstance(y, ast.Name) and y.id == nm for y in ast.walk(val)):
                return True
        return False

    def _classify(self, n, nd):
        fa = self.fa
        if nd.kind == "test":
            e = nd.ast
            neg = False
            if isinstance(e, ast.UnaryOp) and isinstance(e.op, ast.Not):
                e, neg = e.operand, True
            if isinstance(e, ast.Call) and isinstance(e.func, ast.Attribute) and e.func.attr == "exists":
                r = self._role(e.func.value)
                if r:
                    return ("test-" + ("not-" if neg else "") + r, "")
            return None
        calls = fa.cfg.calls_at(n)
        for c in calls:
            f = c.func
            nm = f.attr if isinstance(f, ast.Attribute) else getattr(f, "id", "")
            args = list(c.args) + [k.value for k in c.keywords]
            roles = [self._role(a) for a in args]
            if nm == "rmtree" and "dst" in roles:
                return ("rmtree", "")
            if nm == "rmtree" and any(self._is_ancestor(a) for a in args):
                return ("rmtree-ancestor", ast.unparse(c))
            if nm == "mkdir" and isinstance(f, ast.Attribute) and self._role(f.value) == "dst":
                return ("mkdir", "")
            if nm == "open" and roles and roles[0] in ("start", "end"):
                mode = next((a.value for a in c.args[1:2] if isinstance(a, ast.Constant)), None)
                if mode is None:
                    mode = next((k.value.value for k in c.keywords if k.arg == "mode" and isinstance(k.value, ast.Constant)), "r")
                if "w" in str(mode) or "a" in str(mode) or "x" in str(mode):
                    return ("create-" + roles[0], "")
            if nm == "touch" and isinstance(f, ast.Attribute) and self._role(f.value) in ("start", "end"):
                return ("create-" + self._role(f.value), "")
            if nm in ("unlink", "remove") and (isinstance(f, ast.Attribute) and self._role(f.value) in ("start", "end") or
                                               any(r in ("start", "end") for r in roles)):
                r = self._role(f.value) if isinstance(f, ast.Attribute) and self._role(f.value) else next(
                    r for r in roles if r in ("start", "end"))
                return ("remove-" + r, "")
            if (nm in NON_ATOMIC_COPY or nm.startswith("unzip")) and "dst" in roles:
                return ("copy", nm)
            # a function of the package that is handed the destination (or a marker) and deletes things: an effect the table
            # does not describe
            if roles and any(r_ in ("dst", "start", "end") for r_ in roles) and isinstance(f, (ast.Name, ast.Attribute)):
                r_ = self.prog.resolve_expr(self.fi.module, f) if hasattr(self.prog, "resolve_expr") else None
                if r_ and r_[0] == "func":
                    body_calls = {getattr(y.func, "attr", getattr(y.func, "id", "")) for y in ast.walk(r_[1].node)
                                  if isinstance(y, ast.Call)}
                    if body_calls & {"rmtree", "unlink", "remove", "rmdir", "removedirs", "rename", "replace", "move"}:
                        if "dst" in roles and _is_entrywise_wipe(r_[1].node, roles.index("dst") if roles.index("dst") < len(c.args)
                                                                 else None, c):
                            return ("wipe", nm)
                        return ("unknown-destructive", nm)
        return None


def _where(m: "Model", n: int) -> str:
    """Stable description of a site: the marker / folder tests that dominate it, by role."""
    cfg = m.fa.cfg
    parts = []
    for t_, lab in cfg.control_predicates(n):
        k = m.kind.get(t_)
        if k and k[0].startswith("test-"):
            role = k[0].split("-")[-1]
            val = lab if "not" not in k[0] else (not lab)
            parts.append(("" if val else "!") + role)
    return "&".join(parts) or "top"


def _where_state(st) -> str:
    """The situation a call started in, by what it can observe: which of destination / start marker / end marker exist.  Crash
    points are named by (effect, situation) - a description of the history that fails, independent of where in the code the
    effect is written."""
    dst, start, end = st[0], st[1], st[2]
    if not dst:
        return "!dst"
    return "dst&" + ("start" if start else "!start") + "&" + ("end" if end else "!end")


class Run:
    def __init__(self, state, crash_points, returns, raises, violations):
        self.state, self.crash_points, self.returns, self.raises, self.violations = state, crash_points, returns, raises, violations


def _eval_local(e: ast.AST, loc: dict):
    """Truth value of a test over locals that hold a known constant on this path (None: not determined)."""
    if isinstance(e, ast.Name) and e.id in loc:
        return bool(loc[e.id])
    if isinstance(e, ast.Constant):
        return bool(e.value)
    if isinstance(e, ast.UnaryOp) and isinstance(e.op, ast.Not):
        v = _eval_local(e.operand, loc)
        return None if v is None else (not v)
    if isinstance(e, ast.BoolOp):
        vals = [_eval_local(v, loc) for v in e.values]
        if isinstance(e.op, ast.And):
            if any(v is False for v in vals):
                return False
            return True if all(v is True for v in vals) else None
        if any(v is True for v in vals):
            return True
        return False if all(v is False for v in vals) else None
    return None


def execute(m: Model, start_state) -> Run:
    """All abstract executions of the function from one persistent state."""
    fa, cfg = m.fa, m.fa.cfg
    crash_points: List[Tuple[str, tuple]] = []  # (crash point key, persistent state left behind)
    returns: List[Tuple[tuple, dict, tuple]] = []  # (final state, facts, effects)
    raises: List[tuple] = []
    violations: List[Tuple[str, str]] = []
    seen = set()
    stack = [(cfg.entry, start_state, (), frozenset())]  # node, state, effects so far, boolean locals (name, value)
    while stack:
        n, st, eff, loc = stack.pop()
        key = (n, st, eff, loc)
        if key in seen:
            continue
        seen.add(key)
        if n == cfg.exit or n == cfg.raise_exit:
            continue
        nd = cfg.nodes[n]
        k = m.kind.get(n)
        dst, start, end, data, origin = st
        nxt_states = [st]
        if k and not k[0].startswith("test-"):
            kind = k[0]
            cp = f"{kind}@{_where_state(start_state)}"
            if kind in ("rmtree", "wipe", "copy") and st[1] and st[2] and st[3] == "complete":
                violations.append(("I2", f"{kind} is executed on a folder that carries both markers (a completed automatic copy "
                                         f"is {'deleted' if kind != 'copy' else 'redone'}) [{cp}; from {_fmt(start_state)}]"))
            if kind == "rmtree-ancestor":
                violations.append(("I2", f"{k[1]} deletes a folder above the destination: sibling folders under it - completed "
                                         f"automatic copies of other relative paths and user-provided folders - are destroyed [{cp}]"))
                ns = EMPTY
                crash_points.append((f"after:{cp}", ns))
                nxt_states = [ns]
                eff = eff + ("rmtree",)
            elif kind == "mkdir":
                ns = (True, False, False, "none", "auto") if not dst else st
                nxt_states = [ns]
                crash_points.append((f"after:{cp}", ns))
            elif kind == "create-start":
                ns = (dst, True, end, data, origin)
                nxt_states = [ns]
                crash_points.append((f"after:{cp}", ns))
            elif kind == "create-end":
                if "copy" not in eff or data != "complete":
                    violations.append(("I4", f"the end marker is written on a path on which this call did not complete a copy "
                                             f"[{cp}; from {_fmt(start_state)}]"))
                ns = (dst, start, True, data, origin)
                nxt_states = [ns]
                crash_points.append((f"after:{cp}", ns))
            elif kind.startswith("remove-"):
                ns = (dst, False if kind.endswith("start") else start, False if kind.endswith("end") else end, data, origin)
                nxt_states = [ns]
                crash_points.append((f"after:{cp}", ns))
            elif kind == "copy":
                if not start:
                    violations.append(("I4", f"the copy begins on a path on which no start marker exists [{cp}; from "
                                             f"{_fmt(start_state)}]"))
                if end:
                    violations.append(("I4", f"the copy runs while an end marker exists [{cp}; from {_fmt(start_state)}]"))
                mid = (dst, start, end, "partial", origin if origin != "none" else "auto")
                ns = (dst, start, end, "complete", origin if origin != "none" else "auto")
                crash_points.append((f"inside:{cp}", mid))
                crash_points.append((f"after:{cp}", ns))
                nxt_states = [ns]
                eff = eff + ("copy",)
            elif kind == "wipe":
                # the entries of the folder (the start marker among them) vanish one by one, the folder stays
                for s_ in (True, False):
                    for e_ in ((True, False) if end else (False,)):
                        for d_ in ("partial", "none"):
                            if s_ and not start:
                                continue
                            crash_points.append((f"inside:{cp}:start={'kept' if s_ else 'gone'}", (True, s_, e_, d_, origin)))
                ns = (True, False, False, "none", origin if origin != "none" else "auto")
                crash_points.append((f"after:{cp}", ns))
                nxt_states = [ns]
                eff = eff + ("rmtree",)
            elif kind == "rmtree":
                # entries vanish in an unspecified order
                for s_ in (True, False):
                    for e_ in ((True, False) if end else (False,)):
                        for d_ in ("partial", "none"):
                            if s_ and not start:
                                continue
                            crash_points.append((f"inside:{cp}:start={'kept' if s_ else 'gone'}", (True, s_, e_, d_, origin)))
                ns = EMPTY
                crash_points.append((f"after:{cp}", ns))
                nxt_states = [ns]
                eff = eff + ("rmtree",)
        # boolean / constant locals (for the truthfulness of the result)
        if nd.kind == "stmt" and isinstance(nd.ast, ast.Assign) and len(nd.ast.targets) == 1 and isinstance(nd.ast.targets[0], ast.Name) \
                and isinstance(nd.ast.value, ast.Constant):
            nm = nd.ast.targets[0].id
            loc = frozenset({(a, b) for a, b in loc if a != nm} | {(nm, nd.ast.value.value)})
        if nd.kind == "stmt" and isinstance(nd.ast, ast.Return):
            facts = {}
            v = fa.ret_ast(n)[0]
            if isinstance(v, ast.Call):
                # keyword, positional (dataclass field order) and **dict(...) / **{...} spellings of the result's fields
                pairs = []
                r = m.prog.resolve_expr(m.fi.module, v.func) if isinstance(v.func, (ast.Name, ast.Attribute)) else None
                fields = list(r[1].annotations) if r and r[0] == "class" else []
                for i, a in enumerate(v.args):
                    if i < len(fields) and not isinstance(a, ast.Starred):
                        pairs.append((fields[i], a))
                for kw in v.keywords:
                    if kw.arg is not None:
                        pairs.append((kw.arg, kw.value))
                    elif isinstance(kw.value, ast.Call) and isinstance(kw.value.func, ast.Name) and kw.value.func.id == "dict" \
                            and not kw.value.args:
                        pairs += [(k2.arg, k2.value) for k2 in kw.value.keywords if k2.arg is not None]
                    elif isinstance(kw.value, ast.Dict):
                        pairs += [(k2.value, v2) for k2, v2 in zip(kw.value.keys, kw.value.values)
                                  if isinstance(k2, ast.Constant) and isinstance(k2.value, str)]
                for name_, val_ in pairs:
                    if isinstance(val_, ast.Constant):
                        facts[name_] = val_.value
                    elif isinstance(val_, ast.Name):
                        facts[name_] = dict(loc).get(val_.id, "?")
            returns.append((nxt_states[0], facts, eff, n))
            continue
        if nd.kind == "stmt" and isinstance(nd.ast, ast.Raise):
            raises.append(nxt_states[0])
            continue
        for s2 in nxt_states:
            for succ, labels in cfg.succs(n):
                if k and k[0].startswith("test-"):
                    role = k[0].split("-")[-1]
                    val = {"dst": s2[0], "start": s2[1], "end": s2[2]}[role]
                    if "not" in k[0]:
                        val = not val
                    if val not in labels:
                        continue
                elif nd.kind == "test" and isinstance(nd.owner, ast.Assert):
                    if True not in labels:
                        continue
                elif nd.kind == "test" and _eval_local(nd.ast, dict(loc)) is not None:
                    # a flag set to a constant on the way here decides the branch ('should_copy = False ... if not should_copy')
                    if _eval_local(nd.ast, dict(loc)) not in labels:
                        continue
                elif "exc" in labels and len(labels) == 1:
                    continue
                stack.append((succ, s2, eff, loc))
    return Run(start_state, crash_points, returns, raises, violations)


def analyse(m: Model):
    """Crash closure -> (runs by start state, provenance: state -> crash point keys that leave it behind)."""
    runs: Dict[tuple, Run] = {}
    prov: Dict[tuple, Set[str]] = {EMPTY: {"initial:nothing-there"}, USER: {"initial:user-provided-folder"}}
    work = [EMPTY, USER]
    while work:
        s = work.pop()
        if s in runs:
            continue
        r = execute(m, s)
        runs[s] = r
        for cp, ps in r.crash_points:
            prov.setdefault(ps, set()).add(cp)
            if ps not in runs:
                work.append(ps)
        for fs, facts, eff, n in r.returns:
            prov.setdefault(fs, set()).add("completed-run")
            if fs not in runs:
                work.append(fs)
    return runs, prov


def run(prog: Program, rep: Report, tier: str):
    rep.trusted += ["effect table of kdverif/props/c20.py: rmtree / copytree / extractall / unzip jobs are non-atomic, mkdir and "
                    "the creation of a marker file are atomic; a crash leaves exactly the effects performed so far",
                    "a folder without markers that the copy function did not create is a complete user-provided dataset"]
    rep.not_decided += ["byte identity of the copy, durability against power loss (fsync), concurrent copiers",
                        "the contents of partially extracted zip members"]
    rep.rule("I1.usable-on-return", "crash closure: from every persistent state that any sequence of interrupted attempts can leave "
             "behind, a normal return leaves complete data - unless the folder is user-provided (it existed without markers "
             "before any automatic copy); reported per crash point (the effect after / inside which the process died)")
    rep.rule("I2.completed-copy-stable", "no destructive or copying effect is executed on a folder that carries both markers")
    rep.rule("I3.truthful-result", "was_copied is true exactly on returns of runs that copied, was_deleted exactly on runs that "
             "deleted")
    rep.rule("I4.marker-order", "the end marker is created only after the copy completed and the start marker before it begins (on "
             "every path: create-start, then copy, then create-end)")
    rep.rule("I5.twins-agree", "copy_folder_from_global_to_local and copy_imagefolder_from_global_to_local have the same "
             "abstraction: for every persistent state the same effects and the same was_copied / was_deleted")
    rep.rule("I6.worker-errors-propagate", "in kappadata/copying the results of parallel extraction jobs are consumed: the iterator "
             "returned by an executor's map() is iterated (or turned into a list), futures returned by submit() have result() / "
             "as_completed applied - a lazily evaluated map whose result is dropped swallows every exception of the workers, so a "
             "failed extraction is followed by the end marker")
    n_par = 0
    for relp in sorted(p_ for p_ in prog.by_relpath if p_.startswith("kappadata/copying/")):
        for fi_ in [f_ for f_ in prog.raw.all_functions() if f_.module.relpath == relp]:
            execs = set()
            for y in ast.walk(fi_.node):
                if isinstance(y, ast.withitem) and isinstance(y.context_expr, ast.Call) and isinstance(y.optional_vars, ast.Name):
                    cn = getattr(y.context_expr.func, "attr", getattr(y.context_expr.func, "id", ""))
                    if cn.endswith("Executor") or cn in ("Pool", "ThreadPool"):
                        execs.add(y.optional_vars.id)
                if isinstance(y, ast.Assign) and isinstance(y.value, ast.Call) and len(y.targets) == 1 and isinstance(y.targets[0], ast.Name):
                    cn = getattr(y.value.func, "attr", getattr(y.value.func, "id", ""))
                    if cn.endswith("Executor") or cn in ("Pool", "ThreadPool"):
                        execs.add(y.targets[0].id)
            if not execs:
                continue
            for st in ast.walk(fi_.node):
                if isinstance(st, ast.Expr) and isinstance(st.value, ast.Call) and isinstance(st.value.func, ast.Attribute) and \
                        isinstance(st.value.func.value, ast.Name) and st.value.func.value.id in execs and \
                        st.value.func.attr in ("map", "submit", "imap", "imap_unordered", "apply_async", "map_async"):
                    n_par += 1
                    o_ = rep.bad("I6.worker-errors-propagate", fi_, f"dropped:{st.value.func.attr}", f"the result of "
                                 f"{st.value.func.value.id}.{st.value.func.attr}(...) (line {st.lineno}) is dropped: exceptions raised in "
                                 f"the workers are never re-raised, a failed extraction looks like a finished one and the end marker is "
                                 f"written over incomplete data", line=st.lineno, clause="C20.I1")
                elif isinstance(st, (ast.For, ast.Assign, ast.Return)) and any(
                        isinstance(y, ast.Call) and isinstance(y.func, ast.Attribute) and isinstance(y.func.value, ast.Name)
                        and y.func.value.id in execs and y.func.attr in ("map", "submit", "imap", "imap_unordered")
                        for y in ast.walk(st.iter if isinstance(st, ast.For) else st.value) if st is not None and (
                            isinstance(st, ast.For) or st.value is not None)):
                    n_par += 1
                    rep.ok("I6.worker-errors-propagate", fi_, "consumed", "the results of the parallel jobs are consumed",
                           line=st.lineno, clause="C20.I1", nontrivial=False)
    summaries = {}
    for rel, fname in FUNCS:
        # the unzip helpers are effects of the table (COPY into the destination), not code to look into
        progk = prog.keeping("unzip", "unzip_batched_zips", "unzip_imagefolder_classwise", "run_unzip_jobs")
        fi = progk.func(rel, fname)
        m = Model(progk, fi)
        rep.require(m.dst and m.start and m.end, f"anchor-missing: destination / marker paths in {fname}")
        rep.rule("I1.marker-location", "start and end marker are files directly inside the destination folder of this copy (dst / "
                 "<name>): a marker kept elsewhere - e.g. in the common parent of several destinations - is shared between copies, "
                 "and one copy's completion vouches for another's interrupted data")
        end_in_dst = (m.end_parent == m.dst) if m.end_parent is not None else (
            (m.end_sibling_of == m.start) if m.end_sibling_of is not None else None)
        rep.decide(end_in_dst, "I1.marker-location", fi, "end-marker", "the end marker lies in the destination folder",
                   f"the end marker is created under '{m.end_parent or m.end_sibling_of}', not under the destination folder "
                   f"'{m.dst}': with relative_path several destinations share it", clause="C20.I1")
        kinds = sorted({k[0] for k in m.kind.values()})
        unknown_ = sorted({k[1] for k in m.kind.values() if k[0] == "unknown-destructive"})
        if unknown_:
            for rule_ in ("I1.usable-on-return", "I2.completed-copy-stable", "I3.truthful-result", "I4.marker-order"):
                rep.unk(rule_, fi, "effects", f"the destination is handed to {', '.join(unknown_)}(), a package function that deletes "
                        f"files and is not in the effect table: what a crash inside it leaves behind is not modelled - not decided",
                        clause="C20." + rule_.split(".")[0])
            summaries[fname] = ("unknown", tuple(unknown_))
            continue
        rep.require({"mkdir", "create-start", "create-end", "copy"} <= set(kinds),
                    f"anchor-missing: file-system effects in {fname} (found {kinds})")
        rep.analysed_add("functions", f"{rel}:{fname}")
        runs, prov = analyse(m)
        rep.extra.setdefault("persistent_states", {})[fname] = sorted(_fmt(s) for s in runs)
        # ---- I1 per crash point --------------------------------------------------------------------------------
        bad_states = {}
        for s, r in runs.items():
            for fs, facts, eff, n in r.returns:
                if fs[3] != "complete" and fs[4] != "user":
                    bad_states.setdefault(s, []).append((fs, eff, n))
        cps = sorted({cp for v in prov.values() for cp in v})
        for cp in cps:
            states = [s for s, v in prov.items() if cp in v]
            offenders = [s for s in states if s in bad_states]
            if cp.startswith("initial") or cp == "completed-run":
                continue
            if offenders:
                s = offenders[0]
                fs, eff, n = bad_states[s][0]
                rep.bad("I1.usable-on-return", fi, f"crash:{cp}", f"a crash {cp.replace(':', ' ', 1)} leaves ({_fmt(s)}); the next "
                        f"call returns normally at line {m.fa.line(n)} with ({_fmt(fs)}): an interrupted copy is reported as "
                        f"usable", line=m.fa.line(n), clause="C20.I1")
            else:
                rep.ok("I1.usable-on-return", fi, f"crash:{cp}", f"every state left behind ({len(states)}) is repaired or "
                       f"recognised by the next call", clause="C20.I1")
        for s in (EMPTY, USER):
            r = runs[s]
            ok = all(fs[3] == "complete" or fs[4] == "user" for fs, _, _, _ in r.returns)
            rep.decide(ok, "I1.usable-on-return", fi, f"fresh:{_fmt(s)}", "an uninterrupted call ends with complete data",
                       "an uninterrupted call returns over incomplete data", clause="C20.I1")
        # ---- I2 ------------------------------------------------------------------------------------------------------
        v2 = sorted({msg for r in runs.values() for k, msg in r.violations if k == "I2"})
        rep.decide(not v2, "I2.completed-copy-stable", fi, "both-markers", "a folder with both markers is never touched",
                   "; ".join(v2[:2]), clause="C20.I2")
        both = [s for s in runs if s[1] and s[2]]
        for s in both:
            r = runs[s]
            untouched = all(eff == () for _, _, eff, _ in r.returns) and r.returns
            if not untouched:
                rep.bad("I2.completed-copy-stable", fi, f"from:{_fmt(s)}", "a folder with both markers is copied / deleted again",
                        clause="C20.I2")
        # ---- I3 ------------------------------------------------------------------------------------------------------
        bad3 = []
        for s, r in runs.items():
            for fs, facts, eff, n in r.returns:
                if "was_copied" in facts and facts["was_copied"] != ("copy" in eff):
                    bad3.append(f"line {m.fa.line(n)}: was_copied={facts['was_copied']} but the run {'did' if 'copy' in eff else 'did not'} copy")
                if "was_deleted" in facts and facts["was_deleted"] != "?" and facts["was_deleted"] != ("rmtree" in eff):
                    bad3.append(f"line {m.fa.line(n)}: was_deleted={facts['was_deleted']} but the run {'did' if 'rmtree' in eff else 'did not'} delete")
        rep.decide(not bad3, "I3.truthful-result", fi, "flags", "was_copied / was_deleted match the effects of the run",
                   "; ".join(sorted(set(bad3))[:2]), clause="C20.I3")
        # ---- I4 marker order ---------------------------------------------------------------------------------------------
        v4 = sorted({msg for r in runs.values() for k, msg in r.violations if k == "I4"})
        has = {k[0] for k in m.kind.values()}
        rep.decide((not v4) if {"create-start", "create-end", "copy"} <= has else False, "I4.marker-order", fi, "start<copy<end",
                   "on every feasible run (flags and persistent state followed): start marker, then copy, then end marker",
                   "; ".join(v4[:2]) or "the function does not create both markers around a copy", clause="C20.I4")
        summaries[fname] = {(_fmt(s)): sorted({(eff, facts.get("was_copied"), facts.get("was_deleted")) for _, facts, eff, _ in r.returns})
                            for s, r in runs.items()}
        rep.floor(f"persistent states in the crash closure of {fname}", len(runs), 5)
    a, b = [summaries[f] for _, f in FUNCS]
    if isinstance(a, tuple) or isinstance(b, tuple):
        rep.decide(None if (isinstance(a, tuple) and isinstance(b, tuple) and a == b) else (False if isinstance(a, tuple) != isinstance(
            b, tuple) else None), "I5.twins-agree", prog.func(*FUNCS[1]), "summary", "", "one twin hands the destination to a "
                   "deleting helper the other does not use (or both use helpers that are not modelled): not decided" if isinstance(
                       a, tuple) == isinstance(b, tuple) else "only one of the two copy functions hands the destination to a deleting "
                   "helper: the twins no longer clean up in the same way", clause="C20.I5")
        names.check(prog, rep, FILES, clause="C20.G1", floor=8)
        return
    rep.decide(a == b, "I5.twins-agree", prog.func(*FUNCS[1]), "summary", f"equal abstractions over {len(a)} persistent states",
               "the two copy functions behave differently on some persistent state: " + "; ".join(
                   f"{k}: {a.get(k)} vs {b.get(k)}" for k in sorted(set(a) | set(b)) if a.get(k) != b.get(k))[:300],
               clause="C20.I5")
    names.check(prog, rep, FILES, clause="C20.G1", floor=8)
