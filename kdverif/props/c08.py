"""C08 - seeded sample wrappers make sample i a pure function of (data, config, seed, i) (DESIGN §4 C08)."""
from __future__ import annotations

import ast
from typing import List

from ..core import Report
from ..deps import Deps
from ..fa import fa_of
from ..model import ClassInfo, FuncInfo, Program
from ..rules import names
from ..rules.hooks import Forwarding, Ownership
from ..rules.rng import RngDiscipline
from ..rules.seeded import SeededApplication, generator_constructions, seed_form, seed_not_none_assumption
from ..sym import show

ANCHOR_FILES = [
    "kappadata/wrappers/sample_wrappers/base/transform_wrapper_base.py",
    "kappadata/wrappers/sample_wrappers/x_transform_wrapper.py",
    "kappadata/wrappers/sample_wrappers/kd_multi_view_wrapper.py",
    "kappadata/wrappers/sample_wrappers/kd_mix_wrapper.py",
    "kappadata/wrappers/sample_wrappers/semseg_transform_wrapper.py",
]


def seeded_wrappers(prog: Program, own: Ownership) -> List[ClassInfo]:
    """KDWrapper-family classes whose constructor chain stores a ``seed`` and that construct a numpy
    generator in a method taking an ``idx`` parameter."""
    out = []
    for C in prog.subclasses("KDWrapper"):
        if "seed" not in own.types.of(C):
            continue
        if seeding_methods(prog, C):
            out.append(C)
    return out


def seeding_methods(prog: Program, C: ClassInfo) -> List[FuncInfo]:
    res = []
    seen = set()
    for K in C.mro_classes():
        for name, fi in K.methods.items():
            if name in seen or C.lookup(name) is not fi:
                continue
            seen.add(name)
            if "idx" not in fi.params():
                continue
            if name.startswith("_") and not name.startswith("__") and prog.inliner is not None and any(
                    callee == fi.qualname for _, callee in prog.inliner.inlined) and (fi.is_static or "seed" in fi.params()):
                # a private helper that receives the seed as an argument and was inlined into its callers: the construction is
                # judged where it is used (in the normal form of the caller), not on the helper's own parameters
                continue
            fa = fa_of(prog, fi)
            if generator_constructions(fa):
                res.append(fi)
    return res


def run(prog: Program, rep: Report, tier: str):
    own = Ownership(prog, "KDTransform")
    fwd = Forwarding(prog, own)
    sa = SeededApplication(prog, own, fwd)
    needs = own.needs("rng")
    rd = RngDiscipline(prog, own.types, bound=4 if tier == "quick" else 12, family_root=own.root)
    rep.trusted += ["effect table of kdverif/rules/rng.py", "np.random.default_rng(seed) is a pure function of seed",
                    "transforms keep no hidden per-call state other than their generator (KDScheduledTransform's "
                    "sample counter is called out as an exception: C15)"]
    rep.not_decided += ["behaviour of a real DataLoader with workers (follows from the clauses but is not observed)",
                        "non-KDTransform callables (e.g. torchvision random transforms) used as transforms: they "
                        "cannot be seeded and draw from the global Torch RNG",
                        "datasets whose loaders mutate returned storage"]
    rep.rule("G4.seed-dep", "under 'self.seed is not None' the per-sample generator is constructed inside the call "
             "with a seed expression whose dependence set is exactly {self.seed, idx} and that is affine with non-zero "
             "coefficients (different indices, different streams)")
    rep.rule("G3.inject-before-apply", "under 'self.seed is not None' every application of an owned transform that may "
             "hold a generator is preceded on every path by set_rng(<that generator>) on the same transform; "
             "isinstance guards must admit every class that holds a generator")
    rep.rule("G2.seeded-draws", "under 'self.seed is not None' every other random draw of the method is a method call "
             "on the constructed generator; no process-global or unseeded draw")
    rep.rule("G8.pure-getitem", "getitem_* methods of seeded wrappers (and the helpers they call on self) store "
             "nothing into self.*")
    rep.rule("G9.idx-passthrough", "getitem_* methods that delegate to the seeding helper pass their own idx on")

    from .c07 import member_stability, set_rng_propagation
    set_rng_propagation(prog, rep, own, fwd, clause="C08.2")  # the injected generator reaches nested members
    member_stability(prog, rep, own, clause="C08.2")
    wrappers = seeded_wrappers(prog, own)
    # a wrapper that stores a seed but builds no generator in any method that takes the index cannot make sample i a function
    # of (seed, i): whatever generator its transforms hold was created at some other time (construction, worker start)
    kdw_ = prog.cls("KDWrapper")
    for C in prog.subclasses("KDWrapper"):
        if C in wrappers or "seed" not in own.types.of(C) or prog.is_dead(C.module):
            continue
        entries = [C.lookup(n) for n in sorted({n for K in C.mro_classes() for n in K.methods if n.startswith("getitem_")})]
        entries = [e for e in entries if e is not None and e.cls is not None and kdw_ in e.cls.mro() and e.cls is not kdw_
                   and "idx" in e.params()]
        if entries and fwd.members(C):
            o = rep.bad("G4.seed-dep", C.module, f"generator:{C.name}", f"{C.name} stores a seed and applies owned transforms in "
                        f"{', '.join(e.name for e in entries[:3])}, but no method that receives the index constructs a generator "
                        f"from (seed, idx): the sample no longer depends on (seed, idx) alone (a generator bound at construction "
                        f"or at worker start is replaced / advanced by other events)", line=C.node.lineno, clause="C08.1")
            o.func = entries[0].qualname
    rep.floor("seeded wrapper classes (concrete, incl. subclasses)", len(wrappers), 8)
    declaring = set()
    n_apps = 0
    for C in wrappers:
        rep.analysed_add("classes", C.qualname)
        members = fwd.members(C)
        for fi in seeding_methods(prog, C):
            declaring.add(fi.qualname)
            fa0 = fa_of(prog, fi)
            assume = seed_not_none_assumption(fa0)
            fa = fa0.prune(assume)
            rep.analysed_add("functions", f"{fi.module.relpath}:{fi.qualname} (as {C.name})")
            gens = generator_constructions(fa)
            gen_terms = set()
            for n, call, seed in gens:
                ok, why = seed_form(seed, "idx", assume=assume)
                o = rep.decide(ok, "G4.seed-dep", fi.module, f"generator:{fi.qualname}", why, why,
                               line=call.lineno, clause="C08.1")
                o.func = fi.qualname
                gen_terms.add(fa.sym.term(call, n))
            if not gens:
                o = rep.bad("G4.seed-dep", fi.module, f"generator:{fi.qualname}",
                            "no generator is constructed on the seeded path", line=fi.node.lineno, clause="C08.1")
                o.func = fi.qualname
            # injection before application
            for m, ts in sorted(members.items(), key=lambda kv: str(kv[0])):
                for ok, why, line in sa.check_member(C, fi, m, ts, needs, assume, gen_terms):
                    n_apps += 1
                    o = rep.decide(ok, "G3.inject-before-apply", fi.module, f"apply:{m}", why, why,
                                   line=line, clause="C08.2")
                    o.func = fi.qualname
                    if fi.cls is not C:
                        o.detail += f" [analysed for {C.name}]"
            # other draws
            events, analysed = rd.explore(C, [fi], extra_ok=gen_terms, assume=assume)
            bad = [e for e in events if e.kind in ("global", "entropy", "uncontrolled", "from-global")]
            seen = set()
            for e in bad:
                if (e.fi.qualname, e.text) in seen:
                    continue
                seen.add((e.fi.qualname, e.text))
                o = rep.bad("G2.seeded-draws", e.fi.module, f"{e.kind}:{e.text}",
                            f"on the seeded path of {C.name}.{fi.name}: {e.detail or e.kind}", line=e.line,
                            clause="C08.2")
                o.func = e.fi.qualname
            if not bad:
                nd = sum(e.kind == "explicit" for e in events)
                o = rep.ok("G2.seeded-draws", fi.module, f"draws:{fi.name}",
                           f"{nd} draws on the seeded path, all on the per-sample generator", line=fi.node.lineno,
                           clause="C08.2", nontrivial=nd > 0)
                o.func = fi.qualname
        # interprocedural: from every getitem_* entry, through helpers called on self
        kdw = prog.cls("KDWrapper")
        for name in sorted({n for K in C.mro_classes() for n in K.methods if n.startswith("getitem_")}):
            entry = C.lookup(name)
            if entry is None or entry.cls is None or kdw not in entry.cls.mro() or entry.cls is kdw:
                continue
            fa_e = fa_of(prog, entry)
            assume = seed_not_none_assumption(fa_e)
            for m, ts in sorted(members.items(), key=lambda kv: str(kv[0])):
                if m.kind != "attr":
                    continue
                needed = own.needed_classes(ts, needs)
                if not needed:
                    continue
                exposed, _ = sa.summarize(C, entry, m, needed, assume)
                o = rep.decide(None if (exposed and getattr(sa, "summary_undecided", False)) else not exposed,
                               "G3.inject-before-apply", entry.module, f"entry:{name}->{m}",
                               f"every application of {m} reachable from {name} (through helpers on self) is preceded by the "
                               f"injection of the per-sample generator",
                               "; ".join(f"{m} is applied in {fn} (line {ln}) on a path from {name} on which no per-sample "
                                         f"generator was injected ({path})" for fn, ln, path in exposed[:3]),
                               line=entry.node.lineno, clause="C08.2")
                o.func = f"{entry.cls.name}.{name}"
                if entry.cls is not C:
                    o.detail += f" [analysed for {C.name}]"
        # purity + idx passthrough of all getitem_* / _getitem methods
        for name in sorted({n for K in C.mro_classes() for n in K.methods}):
            if not (name.startswith("getitem_") or name == "_getitem"):
                continue
            fi = C.lookup(name)
            if fi is None or fi.cls is None or prog.cls("KDWrapper") not in fi.cls.mro():
                continue
            if fi.cls.name == "KDWrapper":
                continue
            fa = fa_of(prog, fi)
            stores = []
            memo_attrs = set()
            dep_ = Deps(fa, control=False)
            per_call = set(fi.params()[1:])
            for n in fa.cfg.nodes:
                if fa.cfg.nodes[n].kind == "entry":
                    continue
                for var, tgt, val in fa.cfg.defs_at(n):
                    if fa.self_name and (var.startswith(fa.self_name + ".")):
                        # a table computed from the configuration alone and kept for later calls (lazily built look-up table) is no
                        # per-sample state - provided nobody writes into it (checked below)
                        if val is not None and isinstance(tgt, ast.Attribute) and not var.endswith("[]") and not any(
                                lf[0] == "param" and lf[1] in per_call for lf in dep_.of(val, n)) and not _draws_or_loads(val):
                            memo_attrs.add(var.split(".", 1)[1])
                            continue
                        stores.append((var, fa.line(n)))
            if memo_attrs:
                # in-place writes through a view of such a table
                for n, call in fa.calls():
                    f_ = call.func
                    if isinstance(f_, ast.Attribute) and f_.attr.endswith("_") and not f_.attr.startswith("_"):
                        hit_ = _may_view_of(fa, f_.value, n, memo_attrs)
                        if hit_:
                            stores.append((f"{fa.self_name}.{hit_} (written in place through {ast.unparse(f_.value)}.{f_.attr}: "
                                           f"the kept table changes with every request that touches this row)", fa.line(n)))
            o = rep.decide(not stores, "G8.pure-getitem", fi.module, f"stores:{name}",
                           "no per-sample store to self.* in the method", f"stores to {', '.join(v for v, _ in stores)}",
                           line=stores[0][1] if stores else fi.node.lineno, clause="C08.3", nontrivial=False)
            o.func = fi.qualname
            seeders = {f.name for f in seeding_methods(prog, C)}
            for n, call in fa.calls():
                f = call.func
                if isinstance(f, ast.Attribute) and isinstance(f.value, ast.Name) and f.value.id == fa.self_name \
                        and f.attr in seeders and f.attr != name and "idx" in fi.params():
                    tgt = C.lookup(f.attr)
                    ps = tgt.params()[1:]
                    arg = None
                    if "idx" in ps and ps.index("idx") < len(call.args):
                        arg = call.args[ps.index("idx")]
                    for k in call.keywords:
                        if k.arg == "idx":
                            arg = k.value
                    ok = arg is not None and fa.sym.term(arg, n) == ("param", "idx")
                    o = rep.decide(ok, "G9.idx-passthrough", fi.module, f"{name}->{f.attr}",
                                   "passes its own idx to the seeding helper",
                                   f"passes {ast.unparse(arg) if arg is not None else 'nothing'} as idx to "
                                   f"{f.attr}: the stream is not a function of this sample's index",
                                   line=call.lineno, clause="C08.1")
                    o.func = fi.qualname
    rep.floor("methods that construct the per-sample generator", len(declaring), 5)
    rep.floor("transform application sites on seeded paths", n_apps, 10)
    extra = sorted({c.module.relpath for c in wrappers} | set(ANCHOR_FILES))
    names.check(prog, rep, extra, clause="C08.4", floor=20)


def _draws_or_loads(e: ast.AST) -> bool:
    """the expression draws random numbers or reads samples (anything that differs from call to call)"""
    for y in ast.walk(e):
        if isinstance(y, ast.Call) and isinstance(y.func, ast.Attribute):
            if y.func.attr.startswith("getitem_") or y.func.attr in (
                    "random", "integers", "uniform", "normal", "beta", "permutation", "choice", "shuffle", "rand", "randn", "randint",
                    "randperm", "default_rng", "get_rng_from_global"):
                return True
        if isinstance(y, ast.Call) and isinstance(y.func, ast.Name) and y.func.id in ("get_rng_from_global",):
            return True
    return False


_VIEW_METHODS = {"view", "reshape", "squeeze", "unsqueeze", "expand", "expand_as", "detach", "t", "T", "transpose", "permute",
                 "flatten", "narrow", "select", "contiguous", "view_as", "float", "to"}


def _may_view_of(fa, e: ast.AST, at: int, attrs, depth: int = 8, _seen=None):
    """Name of the self attribute (one of ``attrs``) that the expression may be a view / alias of on some path: through plain
    copies of locals, subscripts, attribute access and view-like tensor methods; a call that builds a new object (clone, copy,
    arithmetic, constructors) ends the chain."""
    _seen = set() if _seen is None else _seen
    if depth <= 0 or e is None:
        return None
    if isinstance(e, ast.Attribute) and isinstance(e.value, ast.Name) and e.value.id == fa.self_name:
        return e.attr if e.attr in attrs else None
    if isinstance(e, (ast.Subscript, ast.Attribute)):
        return _may_view_of(fa, e.value, at, attrs, depth - 1, _seen)
    if isinstance(e, ast.Call) and isinstance(e.func, ast.Attribute) and e.func.attr in _VIEW_METHODS:
        return _may_view_of(fa, e.func.value, at, attrs, depth - 1, _seen)
    if isinstance(e, ast.Name):
        for d in fa.cfg.reaching().get(at, {}).get(e.id, ()):
            if (e.id, d) in _seen or fa.cfg.nodes[d].kind == "entry":
                continue
            _seen.add((e.id, d))
            v = fa.cfg.def_value(d, e.id)
            if v is not None:
                r = _may_view_of(fa, v, d, attrs, depth - 1, _seen)
                if r:
                    return r
    return None
