"""C12 - rank-aware samplers split one global epoch draw evenly and reproducibly (DESIGN §4 C12)."""
from __future__ import annotations

import ast
from typing import Dict, List, Optional, Set, Tuple

from ..core import Report
from ..deps import Deps
from ..fa import FA, fa_of
from ..model import ClassInfo, FuncInfo, Program
from ..rules import names
from ..rules.rng import TENSOR_INPLACE_DRAWS, TORCH_GLOBAL_DRAWS, classify_ext
from ..sym import Poly, Term, contains, leaves, show, subterms, term_to_poly

FILES = ["kappadata/samplers/distributed_sampler.py", "kappadata/samplers/random_sampler.py",
         "kappadata/samplers/class_balanced_sampler.py", "kappadata/samplers/weighted_sampler.py",
         "kappadata/utils/distributed.py"]
RANKED = {  # class -> (rank attr, world attr, length term) ; torch's DistributedSampler names them rank / num_replicas
    "ClassBalancedSampler": ("rank", "world_size"),
    "WeightedSampler": ("rank", "world_size"),
    "DistributedSampler": ("rank", "num_replicas"),
}


def torch_generator_seed(t: Term) -> Optional[Term]:
    """seed term of  torch.Generator().manual_seed(<seed>)"""
    if t[0] == "call" and t[1][0] == "attr" and t[1][2] == "manual_seed" and len(t[2]) == 1:
        base = t[1][1]
        if base[0] == "call" and base[1] == ("global", "torch.Generator"):
            return t[2][0]
    return None


def draws(prog: Program, fa: FA) -> List[Tuple[int, ast.Call, str, Optional[Term]]]:
    """(node, call, kind, generator term) for every torch draw in the function; kind: 'gen' (has generator=) | 'global'"""
    out = []
    for n, call in fa.calls():
        t = fa.sym.term(call, n)
        f = t[1]
        gen = None
        for k, v in t[3]:
            if k == "generator":
                gen = v
        name = None
        if f[0] == "global" and f[1].startswith("torch.") and f[1].split(".")[-1] in TORCH_GLOBAL_DRAWS \
                and f[1].count(".") == 1 and f[1] not in ("torch.manual_seed", "torch.seed"):
            name = f[1]
        elif f[0] == "attr" and f[2] in TENSOR_INPLACE_DRAWS:
            name = f"Tensor.{f[2]}"
        if name is None:
            continue
        out.append((n, call, "gen" if gen is not None else "global", gen))
    return out


def seed_deps(fa: FA, dep: Deps, gen: Term) -> Tuple[Optional[Term], Set[str], List[str]]:
    """-> (seed term, self attributes the seed depends on, other things it depends on)"""
    g = gen
    seed = torch_generator_seed(g)
    if seed is None and g[0] == "var":
        # a generator variable with several definitions: union
        return None, set(), [show(g)]
    if seed is None:
        return None, set(), [show(g)]
    d = dep.of_term(seed)
    attrs = {x[1] for x in d if x[0] == "self"}
    others = [show(x) for x in d if x[0] == "param"]
    calls = [s for s in subterms(seed) if s[0] == "call" and s[1][0] == "global" and (
        s[1][1].endswith("get_rank") or s[1][1].endswith("get_world_size") or s[1][1].startswith("time.")
        or s[1][1].startswith("os."))]
    others += [show(c) for c in calls]
    return seed, attrs, others


def _only_behind_alternative(seed: Term, leaf: Term) -> Optional[Term]:
    """The 'a or b' / conditional sub-term that hides every occurrence of ``leaf`` in one of its arms while another arm does not
    mention it (so the value does not depend on the leaf whenever that other arm is taken); None if the leaf also occurs outside."""
    def occurs(t):
        return any(x == leaf or (x[0] == "var" and x[1] == f"self.{leaf[1]}") for x in subterms(t) if x) or t == leaf

    def walk(t) -> Tuple[bool, Optional[Term]]:
        """-> (leaf occurs unconditionally in t, a hiding alternative)"""
        if not isinstance(t, tuple) or not t:
            return False, None
        if t == leaf or (t[0] == "var" and t[1] == f"self.{leaf[1]}"):
            return True, None
        if t[0] == "or" and all(isinstance(x, tuple) for x in t[1]) and len(t[1]) >= 2 and not occurs(t[1][0]) and any(
                occurs(x) for x in t[1][1:]):
            return False, t
        if t[0] == "ifexp" and (occurs(t[2]) != occurs(t[3])) and not occurs(t[1]):
            return False, t
        free, hid = False, None
        for x in t[1:]:
            if isinstance(x, tuple) and x and isinstance(x[0], str):
                f_, h_ = walk(x)
                free, hid = free or f_, hid or h_
            elif isinstance(x, tuple):
                for y in x:
                    if isinstance(y, tuple) and y and isinstance(y[0], str):
                        f_, h_ = walk(y)
                        free, hid = free or f_, hid or h_
                    elif isinstance(y, tuple):
                        for z in y:
                            if isinstance(z, tuple) and z and isinstance(z[0], str):
                                f_, h_ = walk(z)
                                free, hid = free or f_, hid or h_
        return free, hid
    free, hid = walk(seed)
    return hid if (hid is not None and not free) else None


def set_epoch_attr(prog: Program, C: ClassInfo) -> Optional[str]:
    fi = C.lookup("set_epoch")
    if fi is None:
        return None
    fa = fa_of(prog, fi)
    ps = fi.params()
    for n, var, val in fa.stores("self."):
        if val is not None and len(ps) >= 2 and fa.sym.term(val, n) == ("param", ps[1]):
            return var[5:]
    return None


def run(prog: Program, rep: Report, tier: str):
    rep.trusted += ["torch.utils.data.DistributedSampler (base class): rank / num_replicas / total_size = num_samples * "
                    "num_replicas / set_epoch storing self.epoch / its own __iter__ for num_repeats == 1",
                    "torch.Generator().manual_seed(s) and draws with generator=g are pure functions of s",
                    "effect table of kdverif/rules/rng.py (which torch calls draw)"]
    rep.not_decided += ["that the per-rank lists have equal length and reassemble to the global draw as list values (only the "
                        "shape of the slice, the truncation and __len__ are decided)", "torch's own DistributedSampler"]
    rep.rule("G4.seed-epoch", "every random draw in __iter__ of a rank-aware sampler takes generator=<torch.Generator seeded "
             "with an expression whose dependence set contains the seed attribute and the attribute set_epoch writes, and "
             "nothing rank- or process-dependent>; no draw without generator=")
    rep.rule("G9.rank-split", "the per-rank stream is the strided slice [rank : total : world] of the global draw (lower = the "
             "rank attribute, step = the world-size attribute), followed on every path to the yield by a truncation to "
             "len(self) (torch-derived sampler: an assertion len == num_samples); __len__ = effective_length // world size")
    rep.rule("G8.repeat-before-split", "repeated augmentation: repeat_interleave is applied to the global draw and dominates the "
             "rank split (every drawn sample occupies num_repeats consecutive slots of the global draw), and the repeated "
             "draw is cut back to the dataset length before the split")
    n_draws = 0
    for cname, (rank_a, world_a) in RANKED.items():
        C = prog.cls(cname)
        fi = prog.concrete_method(C, "__iter__")
        rep.require(fi is not None, f"anchor-missing: {cname}.__iter__")
        fa = fa_of(prog, fi)
        dep = Deps(fa)
        rep.analysed_add("functions", f"{fi.module.relpath}:{fi.qualname}")
        ep_attr = set_epoch_attr(prog, C) or "epoch"
        if C.lookup("set_epoch") is not None:
            rep.decide(set_epoch_attr(prog, C) is not None, "G4.seed-epoch", C.lookup("set_epoch"), "set_epoch-stores",
                       f"set_epoch stores its argument into self.{ep_attr}", "set_epoch does not store its argument",
                       clause="C12.2", nontrivial=False)
        for n, call, kind, gen in draws(prog, fa):
            n_draws += 1
            construct = f"draw:{' '.join(ast.unparse(call).split())[:80]}"
            if kind == "global":
                rep.bad("G4.seed-epoch", fi, construct, "draw without generator=: uses the process-global Torch RNG, which "
                        "differs between ranks and is not a function of (seed, epoch)", line=call.lineno, clause="C12.1")
                continue
            seed, attrs, others = seed_deps(fa, dep, gen)
            if seed is None and gen[0] in ("self",) or (seed is None and gen[0] == "var" and gen[1].startswith("self.")):
                # a generator kept on the instance: acceptable only if this very iteration re-seeds it before the draw
                reseeds = [(m, c2) for m, c2 in fa.calls_named("manual_seed") if fa.sym.term(c2.func.value, m) == gen
                           and fa.cfg.dominates(m, n) and c2.args]
                if not reseeds:
                    rep.bad("G4.seed-epoch", fi, construct, f"the draw uses the persistent generator {show(gen)}, which is "
                            f"not re-seeded inside __iter__: the draw depends on how often the sampler was iterated before "
                            f"(a second pass over the same (seed, epoch), or an extra pass on one rank, yields a different "
                            f"global draw)", line=call.lineno, clause="C12.1")
                    continue
                seed = fa.sym.term(reseeds[-1][1].args[0], reseeds[-1][0])
                d_ = dep.of_term(seed)
                attrs = {x[1] for x in d_ if x[0] == "self"}
                others = [show(x) for x in d_ if x[0] == "param"]
            if seed is None:
                rep.unk("G4.seed-epoch", fi, construct, f"generator {show(gen)} not of the form "
                        f"torch.Generator().manual_seed(...)", line=call.lineno, clause="C12.1")
                continue
            problems = []
            if "seed" not in attrs:
                problems.append("does not depend on self.seed")
            if ep_attr not in attrs:
                problems.append(f"does not depend on self.{ep_attr} (set_epoch does not change the draw)")
            hidden = _only_behind_alternative(seed, ("self", ep_attr))
            if ep_attr in attrs and hidden:
                problems.append(f"self.{ep_attr} occurs only inside the fall-back arm of '{show(hidden)[:60]}' (operator precedence: "
                                f"'a or b + c' is 'a or (b + c)'): for a non-zero seed the epoch is ignored and every epoch "
                                f"yields the same draw")
            rankish = sorted(a for a in attrs if a in (rank_a, world_a, "rank", "world_size", "num_replicas"))
            if rankish:
                problems.append(f"depends on self.{', self.'.join(rankish)}: ranks draw different permutations, their "
                                f"slices no longer form one global draw")
            if others:
                problems.append(f"depends on {', '.join(others)}")
            rep.decide(not problems, "G4.seed-epoch", fi, construct,
                       f"seed {show(seed)}: depends on {{{', '.join(sorted(attrs))}}}",
                       f"seed {show(seed)} " + "; ".join(problems), line=call.lineno, clause="C12.1")
        splits = rank_split_rules(prog, rep, C, fi, fa, rank_a, world_a, clause="C12.3")
        # ---- repeated augmentation ----------------------------------------------------------------------------------
        reps = [(n, c) for n, c in fa.calls_named("repeat_interleave")]
        if reps and splits:
            rn = reps[0][0]
            sn = splits[-1][0]
            dom = fa.cfg.dominates(rn, sn) and rn != sn
            # cut back to the dataset length at the repeat site
            cut = False
            cut_open = False
            for cn in sorted(fa.cfg.nodes):
                if not (cn == rn or (fa.cfg.dominates(rn, cn) and (cn == sn or fa.cfg.dominates(cn, sn)))):
                    continue
                for x in fa.cfg.walk_node(cn):
                    if isinstance(x, ast.Subscript) and isinstance(x.slice, ast.Slice) and x.slice.upper is not None \
                            and x.slice.lower is None and x.slice.step is None:
                        # the sliced value is (a temporary holding) the repeated draw
                        bt = fa.sym.term(x.value, cn)
                        is_rep = any(st_[0] == "call" and st_[1][0] == "attr" and st_[1][2] == "repeat_interleave"
                                     for st_ in subterms(bt)) or any(
                            isinstance(c, ast.Call) and isinstance(c.func, ast.Attribute) and c.func.attr == "repeat_interleave"
                            for c in ast.walk(fa.expand(x.value, cn)))
                        if is_rep:
                            up = fa.sym.term(x.slice.upper, cn)
                            size_t_ = ("call", ("global", "len"), (("self", "dataset"),), ())
                            if up[0] == "self" and len(up) == 2:
                                # the bound is a public property of the sampler: judged by what the property returns.  All arms
                                # len(dataset): cut.  An arm that is the bare total_size (the per-rank multiple, padded or
                                # truncated - not the dataset length unless it divides evenly): not cut.  Anything else (max / min
                                # / arithmetic over several sizes): not decided
                                pf_ = C.lookup(up[1])
                                if pf_ is not None and any(getattr(d_, "id", "") == "property" for d_ in pf_.node.decorator_list):
                                    pfa_ = fa_of(prog, pf_)
                                    arms_ = []

                                    def _arms(t_):
                                        if isinstance(t_, tuple) and t_ and t_[0] == "ifexp":
                                            _arms(t_[2]); _arms(t_[3])
                                        else:
                                            arms_.append(t_)
                                    for rn_, _v in pfa_.returns():
                                        _arms(pfa_.sym.term(pfa_.ret_ast(rn_)[0], rn_))
                                    if arms_ and all(a_ == size_t_ for a_ in arms_):
                                        up = size_t_
                                    elif arms_ and not any(a_ == ("self", "total_size") for a_ in arms_):
                                        cut_open = True
                            cut = cut or up == size_t_
            kw_ok = any(k.arg == "repeats" and fa.sym.term(k.value, rn) == ("self", "num_repeats") for k in reps[0][1].keywords) \
                or (reps[0][1].args and fa.sym.term(reps[0][1].args[0], rn) == ("self", "num_repeats"))
            # a draw shortened *before* it is repeated must still fill the dataset length: perm[:T] with T = ceil(len / repeats)
            recv = reps[0][1].func.value if isinstance(reps[0][1].func, ast.Attribute) else None
            recv = fa.expand(recv, rn) if recv is not None else None
            if isinstance(recv, ast.Subscript) and isinstance(recv.slice, ast.Slice) and recv.slice.lower is None and \
                    recv.slice.step is None and recv.slice.upper is not None:
                T = fa.sym.term(fa.expand(recv.slice.upper, rn), rn)
                size_t = ("call", ("global", "len"), (("self", "dataset"),), ())
                reps_t = ("self", "num_repeats")
                okT = None
                whyT = f"the draw is shortened to {show(T)[:60]} entries before it is repeated: not decided"
                if T[0] == "call" and T[1][0] == "global" and T[1][1].endswith("ceil") and len(T[2]) == 1 and \
                        T[2][0][0] == "binop" and T[2][0][1] == "/":
                    num, den = T[2][0][2], T[2][0][3]
                    if num == size_t or (num[0] == "var" and fa.sym.term(fa.expand(ast.Name(num[1], ast.Load()), rn), rn) == size_t):
                        okT = den == reps_t
                        whyT = ("the draw is shortened to ceil(len(dataset) / num_repeats) entries before it is repeated" if okT else
                                f"the draw is shortened to ceil(len(dataset) / {show(den)}) entries before it is repeated num_repeats "
                                f"times: the repeated draw no longer fills the dataset length (too few distinct samples per epoch; the "
                                f"remainder is filled by wrapping around)")
                rep.decide(okT, "G8.repeat-before-split", fi, "pre-repeat-cut", whyT, whyT, line=fa.line(rn), clause="C12.5")
            rep.decide(None if (dom and kw_ok and not cut and cut_open) else (dom and cut and kw_ok), "G8.repeat-before-split", fi, "repeat",
                       "repeat_interleave(num_repeats)[:len(dataset)] dominates the rank split",
                       "; ".join(x for x in (None if dom else "repeat_interleave does not precede the rank split",
                                             None if cut else "the repeated draw is not cut back to len(self.dataset)",
                                             None if kw_ok else "repeats is not self.num_repeats") if x),
                       line=fa.line(rn), clause="C12.5")
    rep.floor("generator-based draws in rank-aware samplers", n_draws, 4)
    padding_rule(prog, rep)
    rank_queries_not_memoised(prog, rep, clause="C12.2")
    # RandomSampler (not rank-aware): the repeat path keeps the explicit generator and repeats before cutting
    C = prog.cls("RandomSampler")
    fi = prog.concrete_method(C, "__iter__")
    if fi is not None:
        fa = fa_of(prog, fi)
        rep.analysed_add("functions", f"{fi.module.relpath}:{fi.qualname}")
        for n, call, kind, gen in draws(prog, fa):
            t = fa.sym.term(call, n)
            if kind == "global" and t[1][0] == "attr" and t[1][2] == "random_":
                conds = fa.conds_at(n)
                ok = any(c[0] == "is" and ("self", "generator") in c[1] for c in conds)
                rep.decide(ok, "G4.seed-epoch", fi, "fallback-seed", "global draw only as the documented fallback when no "
                           "generator was given", "global draw although a generator is configured", line=call.lineno,
                           clause="C12.1", nontrivial=False)
            elif kind == "global":
                rep.bad("G4.seed-epoch", fi, f"draw:{' '.join(ast.unparse(call).split())[:80]}",
                        "draw without generator= in the repeated-augmentation path", line=call.lineno, clause="C12.1")
        reps = fa.calls_named("repeat_interleave")
        if reps:
            rn, rc = reps[0]
            t = fa.sym.term(rc, rn)
            kw_ok = any(k == "repeats" and v == ("self", "num_repeats") for k, v in t[3]) or (
                t[2] and t[2][0] == ("self", "num_repeats"))
            rep.decide(kw_ok, "G8.repeat-before-split", fi, "repeat", "repeat_interleave(num_repeats)",
                       "repeats is not self.num_repeats", line=fa.line(rn), clause="C12.5", nontrivial=False)
    rank_defaults(prog, rep, "C12.3")
    names.check(prog, rep, FILES, clause="C12.G1", floor=15)


def rank_split_rules(prog: Program, rep: Report, C: ClassInfo, fi: FuncInfo, fa: FA, rank_a: str, world_a: str, clause: str):
    """Strided rank split, truncation to len(self) between split and yield, __len__ (shared by C12 and C13)."""
    rep.rule("G9.rank-split", "the per-rank stream is the strided slice [rank : total : world] of the global draw (lower = the "
             "rank attribute, step = the world-size attribute), followed on every path to the yield by a truncation to "
             "len(self) (torch-derived sampler: an assertion len == num_samples); __len__ = effective_length // world size")
    # ---- rank split ---------------------------------------------------------------------------------------
    splits = []
    for n in sorted(fa.cfg.nodes):
        for x in fa.cfg.walk_node(n):
            if isinstance(x, ast.Subscript) and isinstance(x.slice, ast.Slice) and x.slice.step is not None:
                splits.append((n, x))
    if not splits:
        # the split may be written as index arithmetic: rank + world * arange(K) are exactly the positions [rank::world][:K]
        arith = None
        for n_, var_, val_ in fa.stores():
            if val_ is None:
                continue
            p_ = term_to_poly(fa.sym.term(val_, n_))
            ar = [a_ for a_ in p_.atoms() if a_[0] == "call" and a_[1][0] == "global" and a_[1][1].endswith("arange") and len(a_[2]) == 1]
            if len(ar) == 1 and p_ == Poly.atom(("self", rank_a)) + Poly.atom(("self", world_a)) * Poly.atom(ar[0]):
                arith = (n_, ar[0][2][0])
        if arith is not None:
            k_ = arith[1]
            k_ok = k_ in (("self", "num_samples"), ("call", ("global", "len"), (("param", fa.self_name),), ()))
            # the slots are positions in the *repeated, padded* global draw: a slot is first wrapped into the draw (mod its length),
            # then mapped to its sample (// repeats) - the other order lets the padding continue the permutation instead of wrapping
            for n2_ in sorted(fa.cfg.nodes):
                for x_ in fa.cfg.walk_node(n2_):
                    if isinstance(x_, ast.Subscript) and not isinstance(x_.slice, ast.Slice):
                        t_ = fa.sym.term(x_.slice, n2_)
                        if t_[0] == "binop" and t_[1] == "%" and t_[2][0] == "binop" and t_[2][1] == "//" and any(
                                lf == ("self", rank_a) for lf in leaves(t_[2][2])):
                            rep.bad("G8.repeat-before-split", fi, "slot-wrap", f"the slot is divided by the repeat count before it is "
                                    f"wrapped ({show(t_)[:70]}): padding slots continue the permutation with further samples instead of "
                                    f"wrapping around to the start of the repeated draw - ranks no longer split one global draw",
                                    line=x_.lineno, clause=clause)
            rep.decide(True if k_ok else None, "G9.rank-split", fi, "split",
                       f"positions rank + world * arange({show(k_)}): the strided slice [rank::world] cut to {show(k_)} entries",
                       f"positions rank + world * arange({show(k_)}): the number of positions is not recognised as the per-rank length",
                       line=fa.line(arith[0]), clause=clause)
            return splits
        rep.bad("G9.rank-split", fi, "split", "no strided slice: the global draw is not distributed among ranks",
                clause=clause)
    for n, x in splits:
        lo = fa.sym.term(x.slice.lower, n) if x.slice.lower is not None else None
        st = fa.sym.term(x.slice.step, n)
        hi = fa.sym.term(x.slice.upper, n) if x.slice.upper is not None else None
        ok = lo == ("self", rank_a) and st == ("self", world_a)
        why = f"[{show(lo) if lo else ''}:{show(hi) if hi else ''}:{show(st)}]"
        len_world = term_to_poly(("call", ("global", "len"), (("param", fa.self_name),), ())) * term_to_poly(("self", world_a))
        hi_ok = hi is None or hi in (("self", "effective_length"), ("self", "total_size")) or \
            hi == ("call", ("global", "len"), (fa.sym.term(x.value, n),), ()) or term_to_poly(hi) == len_world
        rep.decide(ok and hi_ok, "G9.rank-split", fi, "split", f"strided slice {why}",
                   f"the rank split {why} is not [self.{rank_a} : <total> : self.{world_a}]", line=x.lineno,
                   clause=clause)
    ys = [n for n, y in fa.yields()]
    if splits and ys:
        sn = splits[-1][0]
        # truncation to len(self) (or the torch-derived assertion) between split and yield, on every path
        trunc = set()
        for n in sorted(fa.cfg.nodes):
            nd = fa.cfg.nodes[n]
            for x in fa.cfg.walk_node(n):
                if isinstance(x, ast.Subscript) and isinstance(x.slice, ast.Slice) and x.slice.step is None \
                        and x.slice.lower is None and x.slice.upper is not None:
                    up = fa.sym.term(x.slice.upper, n)
                    if up == ("call", ("global", "len"), (("param", fa.self_name),), ()):
                        trunc.add(n)
            if nd.kind == "test" and isinstance(nd.owner, ast.Assert):
                t = fa.sym.term(nd.ast, n)
                if t[0] == "eq" and contains(t, ("self", "num_samples")):
                    trunc.add(n)
        # ... or the global draw is cut to len(self) * world size before an open-ended split [rank::world]: every rank then
        # gets exactly len(self) entries
        pre = set()
        want_pre = term_to_poly(("call", ("global", "len"), (("param", fa.self_name),), ())) * term_to_poly(("self", world_a))
        for n in sorted(fa.cfg.nodes):
            for x in fa.cfg.walk_node(n):
                if isinstance(x, ast.Subscript) and isinstance(x.slice, ast.Slice) and x.slice.step is None \
                        and x.slice.lower is None and x.slice.upper is not None:
                    if term_to_poly(fa.sym.term(x.slice.upper, n)) == want_pre:
                        pre.add(n)
        # every rank split (a fast path may have its own) must be followed by the cut on every path to a yield it feeds
        ok = True
        any_y = False
        for sn_, _x in splits:
            ys_ = [y for y in ys if fa.cfg.reachable(sn_, y) or y == sn_]
            any_y = any_y or bool(ys_)
            cut_before = bool(pre) and _x.slice.upper is None and fa.cfg.must_pass(pre, src=fa.cfg.entry, dst=sn_) and sn_ not in pre
            # an explicit upper bound len(self) * world, or a draw of exactly that many entries, cuts as well
            if _x.slice.upper is not None and term_to_poly(fa.sym.term(_x.slice.upper, sn_)) == want_pre:
                cut_before = True
            src_t = fa.sym.term(_x.value, sn_)
            if src_t[0] == "call" and src_t[1] == ("global", "torch.multinomial") and len(src_t[2]) >= 2 and \
                    term_to_poly(src_t[2][1]) == want_pre:
                cut_before = True
            ok = ok and (cut_before or (bool(trunc) and all(y in trunc or sn_ in trunc or (
                y != sn_ and fa.cfg.must_pass(trunc, src=sn_, dst=y)) for y in ys_)))
        ok = ok and any_y
        rep.decide(ok, "G9.rank-split", fi, "truncate", "per-rank list cut to len(self) before it is yielded",
                   "the per-rank list is yielded without being cut to len(self): ranks whose slice is one longer "
                   "emit an extra index", line=fa.line(sn), clause=clause)
    ln = C.methods.get("__len__")
    if ln is not None:
        la = fa_of(prog, ln)
        rets = [t for _, t in la.returns() if t is not None]
        want = ("binop", "//", ("self", "effective_length"), ("self", world_a))
        rep.decide(len(rets) == 1 and rets[0] == want, "G9.rank-split", ln, "len",
                   "__len__ = effective_length // world size",
                   f"__len__ returns {show(rets[0]) if rets else '?'}, not effective_length // {world_a}",
                   clause=clause)

    return splits


def rank_queries_not_memoised(prog: Program, rep: Report, clause: str):
    rep.rule("G8.rank-query-live", "the helpers that answer 'which rank am I / how many ranks are there' (kappadata/utils/distributed.py) "
             "ask the process group every time: none of them is wrapped in a caching decorator (lru_cache / cache / cached_property) "
             "and none stores its answer in a module-level variable - an answer computed before the process group exists would "
             "otherwise stick, and every sampler built later would believe it is rank 0 of 1 (all ranks yield the whole draw)")
    m = prog.raw.module("kappadata/utils/distributed.py", required=False)
    if m is None:
        return
    n = 0
    for st in m.tree.body:
        if not isinstance(st, ast.FunctionDef):
            continue
        n += 1
        decos = [ast.unparse(d) for d in st.decorator_list]
        cached = [d for d in decos if any(k in d for k in ("lru_cache", "functools.cache", "cached_property")) or d in ("cache",)]
        globs = [x for x in ast.walk(st) if isinstance(x, ast.Global)]
        o = rep.decide(not cached and not globs, "G8.rank-query-live", m, f"function:{st.name}", "answers from the live process group",
                       (f"{st.name} is memoised ({', '.join(cached)})" if cached else f"{st.name} stores into a module-level variable") +
                       ": a value computed before torch.distributed is initialised is returned for the rest of the process",
                       line=st.lineno, clause=clause)
        o.func = st.name
    rep.floor("rank / world-size helper functions", n, 3)


def padding_rule(prog: Program, rep: Report):
    """Wrap-around padding of DistributedSampler's repeat path: (indices * k)[:padding] needs k * len(indices) >= padding."""
    rep.rule("G6.padding-sufficient", "where the global draw is padded by wrapping around, '(indices * k)[:p]', the repetition "
             "count k is the ceiling of p / len(indices) (math.ceil(p / n), (p + n - 1) // n or p // n + 1) - with the floor "
             "p // n the padded list is too short whenever n does not divide p")
    C = prog.cls("DistributedSampler")
    fi = prog.concrete_method(C, "__iter__")
    fa = fa_of(prog, fi)
    found = 0
    for n in sorted(fa.cfg.nodes):
        for x in fa.cfg.walk_node(n):
            if isinstance(x, ast.Subscript) and isinstance(x.slice, ast.Slice) and x.slice.lower is None \
                    and x.slice.upper is not None and isinstance(x.value, ast.BinOp) and isinstance(x.value.op, ast.Mult):
                P = fa.sym.term(x.slice.upper, n)
                a, b = x.value.left, x.value.right
                lst, k = (a, b)
                kt = fa.sym.term(k, n)
                ln = ("call", ("global", "len"), (fa.sym.term(lst, n),), ())
                found += 1
                ok = None
                why = f"repetition count {show(kt)} of unrecognised shape"
                if kt[0] == "call" and kt[1][0] == "global" and kt[1][1] == "math.ceil" and len(kt[2]) == 1:
                    ok = kt[2][0] == ("binop", "/", P, ln)
                    why = "k = math.ceil(p / len(indices))" if ok else f"math.ceil of {show(kt[2][0])}, not of p / len(indices)"
                elif kt == ("binop", "//", P, ln):
                    ok, why = False, ("k = p // len(indices) rounds down: the padded list is shorter than the padding whenever "
                                      "len(indices) does not divide it (the per-rank streams no longer have len(sampler) "
                                      "entries)")
                else:
                    pk = term_to_poly(kt)
                    fl = ("binop", "//", P, ln)
                    from ..sym import Poly
                    if pk == Poly.atom(fl) + Poly.const(1):
                        ok, why = True, "k = p // len(indices) + 1"
                    elif kt[0] == "binop" and kt[1] == "//" and kt[3] == ln and term_to_poly(kt[2]) == term_to_poly(P) + \
                            term_to_poly(ln) - Poly.const(1):
                        ok, why = True, "k = (p + n - 1) // n"
                rep.decide(ok, "G6.padding-sufficient", fi, "wrap-around", why, why, line=x.lineno, clause="C12.3")
    rep.floor("wrap-around padding sites", found, 0)


def rank_defaults(prog: Program, rep: Report, clause: str, classes=("ClassBalancedSampler", "WeightedSampler", "SemiSampler")):
    """an explicitly given rank / world size is what the sampler uses"""
    rep.rule("G7.given-rank-used", "a sampler constructor that takes rank / world_size with a None default stores the given value "
             "when one is given and the process-group query only otherwise ('rank or get_rank()', 'rank if rank is not None else "
             "get_rank()'); 'rank and get_rank()' does the opposite: every explicit rank >= 1 is replaced by the query's answer "
             "(0 without a process group), so all replicas draw rank 0's slice")
    n = 0
    for cname in classes:
        C = prog.cls(cname, required=False)
        init = C.methods.get("__init__") if C is not None else None
        if init is None:
            continue
        ps = set(init.params())
        me = init.params()[0]
        for st in ast.walk(init.node):
            if not (isinstance(st, ast.Assign) and len(st.targets) == 1 and isinstance(st.targets[0], ast.Attribute)
                    and isinstance(st.targets[0].value, ast.Name) and st.targets[0].value.id == me):
                continue
            attr = st.targets[0].attr
            if attr not in ("rank", "world_size", "num_replicas") or attr not in ps:
                continue
            n += 1
            v = st.value
            ok = None
            why = f"self.{attr} = {ast.unparse(v)[:60]}: another construction, not decided"
            if isinstance(v, ast.BoolOp) and any(isinstance(x, ast.Name) and x.id == attr for x in v.values):
                first_is_param = isinstance(v.values[0], ast.Name) and v.values[0].id == attr
                if isinstance(v.op, ast.Or) and first_is_param:
                    ok, why = True, f"self.{attr} = {attr} or <query>"
                elif isinstance(v.op, ast.And):
                    ok = False
                    why = (f"self.{attr} = {ast.unparse(v)[:60]} (line {st.lineno}): 'and' yields the query's answer exactly when "
                           f"a {attr} was given (and the falsy given value otherwise) - an explicit {attr} is ignored")
            elif isinstance(v, ast.Name) and v.id == attr:
                ok, why = True, f"self.{attr} = {attr}"
            elif isinstance(v, ast.IfExp):
                t, b, o = v.test, v.body, v.orelse
                is_p = lambda e: isinstance(e, ast.Name) and e.id == attr
                none_test = isinstance(t, ast.Compare) and len(t.ops) == 1 and is_p(t.left) and \
                    isinstance(t.comparators[0], ast.Constant) and t.comparators[0].value is None
                if none_test and isinstance(t.ops[0], ast.Is):
                    ok = is_p(o) and not is_p(b)
                elif none_test and isinstance(t.ops[0], ast.IsNot):
                    ok = is_p(b) and not is_p(o)
                elif is_p(t):
                    ok = is_p(b) and not is_p(o)
                elif isinstance(t, ast.UnaryOp) and isinstance(t.op, ast.Not) and is_p(t.operand):
                    ok = is_p(o) and not is_p(b)
                if ok is not None:
                    why = (f"self.{attr} takes the given {attr} when one is given" if ok else
                           f"self.{attr} = {ast.unparse(v)[:70]} (line {st.lineno}): the given {attr} is used exactly when none "
                           f"was given - an explicit {attr} is replaced by the process-group query")
            rep.decide(ok, "G7.given-rank-used", init, f"{cname}.{attr}", why, why, line=st.lineno, clause=clause, nontrivial=False)
    if n == 0:
        rep.unk("G7.given-rank-used", FILES[0], "no-site", "no 'self.rank = ...' with a rank parameter found", clause=clause)
