"""C16 - label-rewriting wrappers are coherent, in range and reproducible (DESIGN §4 C16)."""
from __future__ import annotations

import ast
from typing import Dict, List, Optional, Set, Tuple

from ..core import Report
from ..deps import Deps
from ..fa import FA, fa_of
from ..model import ClassInfo, FuncInfo, Program
from ..rules import names
from ..rules.rng import RngDiscipline
from ..sym import Poly, Term, leaves, negate, show, subterms, term_to_poly
from ..types_ import AttrTypes

FILES = [
    "kappadata/wrappers/dataset_wrappers/class_groups_wrapper.py",
    "kappadata/wrappers/dataset_wrappers/random_superclass_wrapper.py",
    "kappadata/wrappers/dataset_wrappers/swap_label_wrapper.py",
    "kappadata/wrappers/dataset_wrappers/overwrite_classes_wrapper.py",
    "kappadata/wrappers/dataset_wrappers/allgather_class_wrapper.py",
    "kappadata/wrappers/dataset_wrappers/kd_pseudo_label_wrapper.py",
    "kappadata/wrappers/sample_wrappers/kd_random_class_wrapper.py",
    "kappadata/wrappers/sample_wrappers/semi_wrapper.py",
    "kappadata/wrappers/sample_wrappers/label_smoothing_wrapper.py",
    "kappadata/wrappers/sample_wrappers/one_hot_wrapper.py",
    "kappadata/utils/one_hot.py",
]
# wrappers whose per-sample accessor changes the label *representation* (soft / one-hot vectors); the bulk accessor is
# documented to keep returning the hard label (used for class counting / balancing), so no bulk twin is required
REPRESENTATION_CHANGING = {
    "LabelSmoothingWrapper": "returns a smoothed vector; bulk hard labels stay valid for counting (argmax preserved)",
    "OneHotWrapper": "returns a one-hot vector; bulk hard labels stay valid for counting",
    "KDMixWrapper": "returns a mixed soft label drawn per call; no bulk equivalent exists",
}
MUTATORS = {"append", "extend", "insert", "pop", "remove", "sort", "reverse", "clear", "fill_", "mul_", "add_", "sub_", "div_",
            "masked_fill_", "index_fill_", "scatter_", "copy_", "zero_", "clamp_"}
COPIERS = {"list", "copy", "deepcopy", "clone", "array", "tensor", "tolist", "numpy", "asarray_copy"}


def method_attr_deps(prog: Program, C: ClassInfo, fi: FuncInfo, assume=None, depth=0, _seen=None) -> Set[str]:
    """self attributes the values returned by fi (resolved on C) may depend on - data and control dependences, followed
    through methods / properties called on self."""
    _seen = _seen if _seen is not None else set()
    key = (fi.qualname, fi.module.name)
    if key in _seen or depth > 4:
        return set()
    _seen.add(key)
    fa0 = fa_of(prog, fi)
    fa = fa0.prune(assume) if assume else fa0
    dep = Deps(fa)
    out: Set[Term] = set()
    for n, t in fa.returns():
        if t is not None:
            out |= dep.of_term(t)
        for t_, lab in fa.cfg.control_predicates(n):
            nd = fa.cfg.nodes[t_]
            if nd.kind == "test":
                out |= dep.of(nd.ast, t_)
    attrs = {x[1] for x in out if x[0] == "self"}
    res = set()
    for a in attrs:
        m = C.lookup(a)
        if m is not None:
            res |= method_attr_deps(prog, C, m, assume, depth + 1, _seen)
        else:
            res.add(a)
    # methods invoked through attribute calls on the self parameter: self.m(...)
    for n, c in fa.calls():
        f = c.func
        if isinstance(f, ast.Attribute) and isinstance(f.value, ast.Name) and f.value.id == fa.self_name:
            m = C.lookup(f.attr)
            if m is not None and m is not fi:
                res |= method_attr_deps(prog, C, m, assume, depth + 1, _seen)
    return res


def rejected_assumptions(fa: FA) -> Dict[Term, bool]:
    """Assumptions under which the function does not raise: every condition guarding a raise statement is false (for an
    'or' guard each disjunct is false)."""
    out: Dict[Term, bool] = {}
    for n, nd in fa.cfg.nodes.items():
        if nd.kind == "stmt" and isinstance(nd.ast, ast.Raise):
            conds = fa.conds_at(n, asserts=False)
            if len(conds) == 1:
                c = conds[0]
                out[c] = False
                if c[0] == "or":
                    for d in c[1]:
                        out[d] = False
    return out


def run(prog: Program, rep: Report, tier: str):
    rep.trusted += ["REPRESENTATION_CHANGING table of kdverif/props/c16.py (three wrappers, one reason each)",
                    "numpy / torch indexing and np.where behave as documented"]
    rep.not_decided += ["label ranges as values, argmax preservation for tensors, the distribution of sampled pseudo labels",
                        "element-wise equality of bulk and per-sample accessors as values (only their common source, index "
                        "spaces and interception are decided)"]
    kdw = prog.cls("KDWrapper")
    wrappers = [C for C in prog.subclasses(kdw, include_self=False) if "getitem_class" in C.methods]
    rep.floor("KDWrapper subclasses defining getitem_class", len(wrappers), 11)

    rep.rule("G9.bulk-twin", "a KDWrapper subclass whose getitem_class does more than delegate to self.dataset.getitem_class(idx, "
             "ctx) also provides getall_class (own or inherited below KDWrapper) - otherwise KDWrapper.__getattr__ serves the "
             "wrapped dataset's unmodified labels to every bulk consumer (samplers, balancing wrappers); representation-"
             "changing wrappers are exempt by table")
    rep.rule("G5.index-space", "inside a wrapper that translates indices with an own index map (self.<A>[idx] handed to the wrapped "
             "dataset), the wrapper's own accessors are called with untranslated indices and the wrapped dataset's accessors with "
             "translated ones - an own accessor called with self.<A>[...] translates twice")
    rep.rule("G4.common-source", "the values returned by getall_class depend on every configuration attribute the values returned "
             "by getitem_class depend on (backward slices incl. control dependences, through helpers on self), evaluated under "
             "the configurations the bulk accessor does not reject by raising")
    rep.rule("G8.no-borrowed-mutation", "a value obtained from the wrapped dataset's bulk accessor (self.dataset.getall_*() / "
             "getall(self.dataset, ...)) is not written in place (subscript store, in-place method) unless it was copied first")
    for C in wrappers:
        rep.analysed_add("classes", C.qualname)
        gi = C.methods["getitem_class"]
        fa = fa_of(prog, gi)
        ps = gi.params()
        # ---- delegation? -------------------------------------------------------------------------------------------
        rets = fa.returns()
        delegates = len(rets) == 1 and rets[0][1] is not None and rets[0][1][0] == "call" and \
            rets[0][1][1] == ("attr", ("self", "dataset"), "getitem_class") and rets[0][1][2][:1] == (("param", ps[1]),)
        ga = C.lookup("getall_class")
        has_bulk = ga is not None and ga.cls is not None and ga.cls is not kdw and kdw in ga.cls.mro()
        if delegates:
            rep.ok("G9.bulk-twin", C, "getall_class", "getitem_class only delegates to the wrapped dataset", nontrivial=False,
                   clause="C16.2")
        elif C.name in REPRESENTATION_CHANGING:
            rep.ok("G9.bulk-twin", C, "getall_class", f"exempt: {REPRESENTATION_CHANGING[C.name]}", nontrivial=False,
                   clause="C16.2")
        else:
            rep.decide(has_bulk, "G9.bulk-twin", C, "getall_class", "rewrites labels per sample and in bulk",
                       f"{C.name} rewrites getitem_class but defines no getall_class: getall_class() resolves through "
                       f"__getattr__ to the wrapped dataset and returns the labels from before the rewrite",
                       line=gi.node.lineno, clause="C16.2")
        if not has_bulk or delegates:
            continue
        ba = fa_of(prog, ga)
        rep.analysed_add("functions", f"{gi.module.relpath}:{gi.qualname}")
        rep.analysed_add("functions", f"{ga.module.relpath}:{ga.qualname}")
        # ---- index spaces ----------------------------------------------------------------------------------------------
        maps = set()
        for n, c in fa.calls():
            t = fa.sym.term(c, n)
            if t[1][0] == "attr" and t[1][1] == ("self", "dataset") and t[2] and t[2][0][0] == "sub" and t[2][0][1][0] == "self":
                maps.add(t[2][0][1][1])
        if maps:
            # other spellings of the same map kept by the constructor (an array next to its list copy)
            fam_ = _attr_families(prog, C)
            reps_ = {fam_.get(m_, m_) for m_ in maps}
            maps |= {a_ for a_, r_ in fam_.items() if r_ in reps_} | {r_ for r_ in reps_}
        for meth in (gi, ga):
            ma = fa_of(prog, meth)
            for n, c in ma.calls():
                f = c.func
                if isinstance(f, ast.Attribute) and isinstance(f.value, ast.Name) and f.value.id == ma.self_name \
                        and f.attr.startswith("getitem_") and c.args:
                    a0 = ma.sym.term(c.args[0], n)
                    bad = a0[0] == "sub" and a0[1][0] == "self" and a0[1][1] in maps
                    rep.decide(not bad, "G5.index-space", meth, f"own-accessor:{f.attr}",
                               "own accessor called with an untranslated index",
                               f"{meth.qualname} passes self.{a0[1][1] if bad else '?'}[...] - an index of the wrapped dataset - "
                               f"to its own {f.attr}, which translates it again: bulk labels are those of other samples",
                               line=c.lineno, clause="C16.1")
                if isinstance(f, ast.Attribute) and f.attr.startswith("getitem_") and ma.sym.term(f.value, n) == ("self", "dataset") \
                        and c.args and maps:
                    a0 = ma.sym.term(c.args[0], n)
                    ok = a0[0] == "sub" and a0[1][0] == "self" and a0[1][1] in maps
                    rep.decide(ok, "G5.index-space", meth, f"wrapped-accessor:{f.attr}",
                               "wrapped dataset addressed through the index map",
                               f"{meth.qualname} addresses the wrapped dataset with {show(a0)} although the wrapper translates "
                               f"indices through self.{', self.'.join(sorted(maps))}", line=c.lineno, clause="C16.1")
        # the index map translates on the way *in* (it is what a wrapper index is looked up with); used as a store position it
        # applies the inverse permutation
        for meth in (gi, ga):
            ma = fa_of(prog, meth)
            for nn, nd_ in ma.cfg.nodes.items():
                st_ = nd_.ast if nd_.kind == "stmt" else None
                if isinstance(st_, (ast.Assign, ast.AugAssign)):
                    for t_ in (st_.targets if isinstance(st_, ast.Assign) else [st_.target]):
                        if isinstance(t_, ast.Subscript) and maps:
                            it_ = ma.sym.term(t_.slice, nn)
                            used = [m_ for m_ in maps if any(x == ("self", m_) for x in subterms(it_))]
                            if used and not (isinstance(t_.value, ast.Attribute) and _n(t_.value.value) == ma.self_name):
                                rep.bad("G5.index-space", meth, f"scatter:{' '.join(ast.unparse(t_).split())[:50]}",
                                        f"{meth.qualname} writes to position self.{used[0]}[...] of its result: the index map is "
                                        f"applied in the store direction (result[map[i]] = value[i]) while the per-sample accessor "
                                        f"reads value[map[i]] - the bulk labels are permuted by the inverse map", line=st_.lineno,
                                        clause="C16.1")
        # ---- common source ----------------------------------------------------------------------------------------------
        assume = rejected_assumptions(ba)
        d_item = method_attr_deps(prog, C, gi, assume)
        d_all = method_attr_deps(prog, C, ga, assume)
        # attributes the constructor derives from one another (a list copy of an index array, ...) carry the same configuration
        fam = _attr_families(prog, C)
        rep_of = lambda a_: fam.get(a_, a_)
        d_all_f = {rep_of(a_) for a_ in d_all}
        missing = sorted(a_ for a_ in d_item - d_all - {"dataset"} if rep_of(a_) not in d_all_f)
        rep.decide(not missing, "G4.common-source", ga, "deps",
                   f"getall_class depends on {{{', '.join(sorted(d_all))}}} - covers getitem_class's {{{', '.join(sorted(d_item))}}}",
                   f"getitem_class depends on self.{', self.'.join(missing)} but getall_class does not (and does not reject such "
                   f"configurations): the bulk labels ignore that part of the configuration", line=ga.node.lineno,
                   clause="C16.3")
        # ---- borrowed mutation --------------------------------------------------------------------------------------------
        for meth in C.methods.values():
            if meth.name == "__init__":
                continue
            borrowed_mutation(prog, rep, meth)
    # ---- seed-only construction ---------------------------------------------------------------------------------------
    rep.rule("G2.seeded-construction", "constructors (and the table generators they call) of the label wrappers draw only from a "
             "generator seeded by the seed argument; the process-global NumPy RNG (GlobalRng) is used only under 'seed is "
             "None'; no other global draw")
    types = AttrTypes(prog)
    rd = RngDiscipline(prog, types)
    n_ctor = 0
    anchor_classes = [c for c in prog.classes.values() if c.module.relpath in FILES and kdw in c.mro()]
    for C in sorted(anchor_classes, key=lambda c: c.qualname):
        init = C.methods.get("__init__")
        entries = [m for m in [init, C.methods.get("_generate_classes")] if m is not None]
        if not entries:
            continue
        n_ctor += 1
        events, analysed = rd.explore(C, entries)
        bad = [e for e in events if e.kind in ("global", "entropy")]
        rep.decide(not bad, "G2.seeded-construction", entries[0], "draws", f"{len(analysed)} functions, no global draw",
                   "; ".join(f"{e.text}: {e.detail}" for e in bad[:3]), line=bad[0].line if bad else entries[0].node.lineno,
                   clause="C16.5")
        if init is not None:
            ia = fa_of(prog, init)
            for n, c in ia.calls():
                t = ia.sym.term(c, n)
                if t[1][0] == "global" and t[1][1].endswith("GlobalRng"):
                    conds = ia.conds_at(n)
                    whole = ia.sym.term(ia.cfg.nodes[n].ast.value, n) if isinstance(ia.cfg.nodes[n].ast, ast.Assign) else None
                    under_none = any(cd[0] == "is" and ("param", "seed") in cd[1] for cd in conds) or (
                        whole is not None and whole[0] == "ifexp" and whole[1][0] == "is" and ("param", "seed") in whole[1][1]
                        and whole[2] == t)
                    rep.decide(under_none, "G2.seeded-construction", init, "global-rng", "GlobalRng() only when seed is None",
                               "the global RNG is used although a seed may be given", line=c.lineno, clause="C16.5")
                if t[1][0] == "global" and t[1][1].endswith("default_rng"):
                    seed = dict(t[3]).get("seed", t[2][0] if t[2] else None)
                    ok = seed == ("param", "seed")
                    rep.decide(ok, "G2.seeded-construction", init, "generator-seed", "default_rng(seed=seed)",
                               f"the generator is seeded with {show(seed) if seed else 'nothing'}, not with the seed argument",
                               line=c.lineno, clause="C16.5")
    rep.floor("label wrapper constructors analysed", n_ctor, 7)
    seed_tests(prog, rep, anchor_classes)
    wrapped_cache(prog, rep, wrappers)
    accessors_stateless(prog, rep, wrappers)
    smoothing(prog, rep)
    mixed_radix(prog, rep)
    unlabeled_marker(prog, rep)
    threshold_twins(prog, rep)
    names.check(prog, rep, FILES, clause="C16.G1", floor=40)


def seed_tests(prog: Program, rep: Report, classes):
    rep.rule("G7.seed-none-test", "the choice between a seeded generator and the process-global RNG is made by 'seed is None' / "
             "'seed is not None', never by the truth value of the seed: 0 is a legal seed and must not select the global RNG")
    n = 0
    for C in sorted(classes, key=lambda c: c.qualname):
        for fi in C.methods.values():
            fa = fa_of(prog, fi)
            for node, nd in fa.cfg.nodes.items():
                tests = []
                if nd.kind == "test" and not isinstance(nd.owner, ast.Assert):
                    tests.append(nd.ast)
                for y in fa.cfg.walk_node(node):
                    if isinstance(y, ast.IfExp):
                        tests.append(y.test)
                for te in tests:
                    t = fa.sym.term(te, node)
                    core = t[1] if t[0] == "not" else t
                    if core in (("self", "seed"), ("param", "seed"), ("self", "_seed")):
                        n += 1
                        rep.bad("G7.seed-none-test", fi, f"test:{ast.unparse(te)}", f"{fi.qualname} branches on the truth value of "
                                f"the seed ('{ast.unparse(te)}'): with seed=0 the wrapper silently uses the global RNG and is no "
                                f"longer a function of its arguments", line=te.lineno, clause="C16.5")
                    elif core[0] == "is" and any(x in (("self", "seed"), ("param", "seed"), ("self", "_seed")) for x in core[1]):
                        n += 1
                        rep.ok("G7.seed-none-test", fi, f"test:{ast.unparse(te)}", "explicit None test", line=te.lineno,
                               clause="C16.5", nontrivial=False)
    rep.floor("seed tests in label wrappers", n, 3)


def wrapped_cache(prog: Program, rep: Report, wrappers):
    rep.rule("G8.no-wrapped-cache", "the accessors (getitem_* / getall_*) of a label wrapper do not store values derived from the "
             "wrapped dataset on the wrapper (no memoisation of wrapped data): the wrapped stack may change its labels later "
             "(e.g. KDRandomClassWrapper's setters), and a cached copy would make bulk and per-sample access disagree")
    for C in wrappers:
        for name, fi in C.methods.items():
            if not (name.startswith("getitem_") or name.startswith("getall_") or name.startswith("_getitem")):
                continue
            fa = fa_of(prog, fi)
            dep = Deps(fa)
            for node, var, val in fa.stores(f"{fa.self_name}."):
                if val is None:
                    continue
                d = dep.of(val, node)
                if ("self", "dataset") in d and _reads_samples(fa, val, node):
                    rep.bad("G8.no-wrapped-cache", fi, f"store:{var}", f"{fi.qualname} caches data obtained from the wrapped dataset "
                            f"in {var}: after the wrapped stack changes its labels, this accessor keeps returning the old ones "
                            f"while the other accessor returns the new ones", line=fa.line(node), clause="C16.3")
            if not any(o.rule == "G8.no-wrapped-cache" and o.func == fi.qualname for o in rep.obs):
                rep.ok("G8.no-wrapped-cache", fi, "stores", "accessor stores nothing derived from the wrapped dataset",
                       clause="C16.3", nontrivial=False)


def accessors_stateless(prog: Program, rep: Report, wrappers):
    """Label accessors and shape queries leave no trace on the wrapper."""
    from ..rules.hooks import stores_on_self
    rep.rule("G8.accessors-stateless", "the label accessors of a label wrapper (getitem_class / getall_class and the private helpers "
             "named _getitem*) and the shape queries of the wrapper base (KDWrapper.getshape / getdim and every getshape_* of a "
             "label wrapper) write nothing onto the wrapper: no attribute, no element of an attribute container, no mutating "
             "container call.  A per-sample generator, a label or a shape remembered on the wrapper makes the answer depend on "
             "what was asked before (a generator kept per index advances with every read; a remembered class count survives "
             "KDRandomClassWrapper's setters)")
    n = 0
    done = set()
    K = prog.cls("KDWrapper")
    todo = [(C, fi) for C in wrappers for name, fi in C.methods.items()
            if name in ("getitem_class", "getall_class") or name.startswith("_getitem") or name.startswith("getshape_")]
    todo += [(K, K.methods[m_]) for m_ in ("getshape", "getdim") if m_ in K.methods]
    for C, fi in todo:
        if fi.qualname in done:
            continue
        done.add(fi.qualname)
        n += 1
        st = stores_on_self(fa_of(prog.raw, prog.raw.method(C.name, fi.name, own=True) or fi))
        rep.decide(not st, "G8.accessors-stateless", fi, "no-store-on-self", "writes nothing onto the wrapper",
                   "; ".join(f"{w} (line {ln})" for ln, w in st[:3]) + f": {fi.qualname} remembers something on the wrapper, so its "
                   "answer depends on the history of earlier calls / of the wrapped stack", line=st[0][0] if st else fi.node.lineno,
                   clause="C16.3")
    rep.floor("label accessors / shape queries checked for statelessness", n, 10)


def borrowed_mutation(prog: Program, rep: Report, fi: FuncInfo):
    fa = fa_of(prog, fi)
    cfg = fa.cfg
    borrowed: Dict[str, Set[int]] = {}
    for n, var, val in fa.stores():
        if val is None or "." in var or var.endswith("[]"):
            continue
        t = fa.sym.term(val, n)
        src = None
        if isinstance(val, ast.Call):
            f = val.func
            if isinstance(f, ast.Attribute) and f.attr.startswith("getall_") and fa.sym.term(f.value, n) == ("self", "dataset"):
                src = True
            r = prog.resolve_expr(fi.module, f)
            if r and r[0] == "func" and r[1].name == "getall" and val.args and fa.sym.term(val.args[0], n) == ("self", "dataset"):
                src = True
        if src:
            borrowed.setdefault(var, set()).add(n)
    for var, defs in borrowed.items():
        for n in sorted(cfg.nodes):
            reach = cfg.reaching().get(n, {}).get(var, set())
            if not (reach & defs):
                continue
            nd = cfg.nodes[n]
            hit = None
            if nd.kind == "stmt" and isinstance(nd.ast, (ast.Assign, ast.AugAssign)):
                tgts = nd.ast.targets if isinstance(nd.ast, ast.Assign) else [nd.ast.target]
                for t_ in tgts:
                    if isinstance(t_, ast.Subscript) and isinstance(t_.value, ast.Name) and t_.value.id == var:
                        hit = f"{var}[...] = ..."
            for c in cfg.calls_at(n):
                if isinstance(c.func, ast.Attribute) and isinstance(c.func.value, ast.Name) and c.func.value.id == var \
                        and c.func.attr in MUTATORS:
                    hit = f"{var}.{c.func.attr}(...)"
            if hit:
                rep.bad("G8.no-borrowed-mutation", fi, f"mutation:{hit}", f"{fi.qualname} writes into the object returned by the "
                        f"wrapped dataset's bulk accessor ({hit}): the wrapped dataset's own labels change for every other "
                        f"consumer and for later calls", line=nd.lineno, clause="C16.4")
        if not any(o.rule == "G8.no-borrowed-mutation" and o.func == fi.qualname for o in rep.obs):
            rep.ok("G8.no-borrowed-mutation", fi, f"borrowed:{var}", "borrowed bulk result is only read", clause="C16.4")


def smoothing(prog: Program, rep: Report):
    rep.rule("G6.smoothing-mass", "LabelSmoothingWrapper (multi-class): the vector has n = getdim_class() entries filled with "
             "off = smoothing / n, the entry of the label is set to on = 1 - smoothing + off, so the mass n*off + (on - off) "
             "is identically 1; OneHotWrapper encodes through to_one_hot_vector(y, n_classes=getdim_class())")
    C = prog.cls("LabelSmoothingWrapper")
    fi = C.methods.get("getitem_class")
    rep.require(fi is not None, "anchor-missing: LabelSmoothingWrapper.getitem_class")
    fa = fa_of(prog, fi)
    rep.analysed_add("functions", f"{fi.module.relpath}:{fi.qualname}")
    fulls = [(n, c) for n, c in fa.calls_named("full")]
    ok = None
    why = "multi-class smoothing of unrecognised shape"
    stores = [(n, nd.ast) for n, nd in fa.cfg.nodes.items() if nd.kind == "stmt" and isinstance(nd.ast, ast.Assign)
              and isinstance(nd.ast.targets[0], ast.Subscript) and isinstance(nd.ast.targets[0].value, ast.Name)]
    for n, st in stores:
        vec = st.targets[0].value.id
        on_t = fa.sym.term(st.value, n)
        idx_t = fa.sym.term(st.targets[0].slice, n)
        # the vector's definition
        for d in fa.cfg.reaching().get(n, {}).get(vec, set()):
            val = fa.cfg.def_value(d, vec)
            if not isinstance(val, ast.Call):
                continue
            t = fa.sym.term(val, d)
            kws = dict(t[3])
            size, fill = kws.get("size"), kws.get("fill_value")
            if size is None or fill is None or size[0] != "tuple" or len(size[1]) != 1:
                continue
            N = size[1][0]
            off = fill
            S = ("self", "smoothing")
            good_off = off == ("binop", "/", S, N)
            want_on = Poly.const(1) - Poly.atom(S) + Poly.atom(off)
            good_on = term_to_poly(on_t) == want_on
            good_n = N[0] == "call" and (N[1] == ("attr", ("self", "dataset"), "getdim_class") or N[1] == ("self", "getdim_class"))
            good_idx = idx_t[0] == "var" or idx_t[0] == "call"
            ok = good_off and good_on and good_n
            why = "off = smoothing / n, on = 1 - smoothing + off, n = getdim_class(): mass 1" if ok else (
                f"off = {show(off)}, on = {show(on_t)}, n = {show(N)}: the mass n*off + (on - off) is not identically 1")
    rep.decide(ok, "G6.smoothing-mass", fi, "multi-class", why, why, clause="C16.6")
    O = prog.cls("OneHotWrapper")
    of = O.methods.get("getitem_class")
    if of is not None:
        oa = fa_of(prog, of)
        rets = [t for _, t in oa.returns()]
        ok = len(rets) == 1 and rets[0] is not None and rets[0][0] == "call" and rets[0][1][0] == "global" \
            and rets[0][1][1].endswith("to_one_hot_vector") and any(
                x[0] == "call" and x[1][0] == "attr" and x[1][2] == "getdim_class" for x in subterms(rets[0]))
        rep.decide(ok, "G6.smoothing-mass", of, "one-hot", "to_one_hot_vector(y, n_classes=self.dataset.getdim_class())",
                   "OneHotWrapper does not encode through to_one_hot_vector with the dataset's class count", clause="C16.6",
                   nontrivial=False)


def mixed_radix(prog: Program, rep: Report):
    """Labels composed of two digits (superclass, split) stay inside the declared class range."""
    rep.rule("G6.label-radix", "where a wrapper composes a label from two parts as 'low + (x % K) * S' and declares its class count "
             "as a product in getshape_class, the stride S times the modulus K is that product: S is the number of values of "
             "the low part, so the composed labels fill exactly [0, getshape_class()[0]) - a stride taken from another "
             "attribute leaves gaps or exceeds the range")
    n = 0
    kdw = prog.cls("KDWrapper")
    for C in prog.subclasses(kdw, include_self=False):
        gs = C.methods.get("getshape_class")
        if gs is None:
            continue
        ga = fa_of(prog, gs)
        rets = [t for _, t in ga.returns() if t is not None]
        if len(rets) != 1 or rets[0][0] != "tuple" or len(rets[0][1]) != 1:
            continue
        P = term_to_poly(rets[0][1][0])
        if len(P.terms) != 1 or len(list(P.atoms())) != 2:
            continue  # not a product of two attributes
        for fi in C.methods.values():
            fa = fa_of(prog, fi)
            for nd_n, nd in fa.cfg.nodes.items():
                for e in fa.cfg.all_exprs(nd_n):
                    for x in ast.walk(e):
                        if isinstance(x, ast.BinOp) and isinstance(x.op, ast.Mult):
                            for a, b in ((x.left, x.right), (x.right, x.left)):
                                a = fa.expand(a, nd_n) if isinstance(a, ast.Name) else a  # 'split = x % K; split * S'
                                if isinstance(a, ast.BinOp) and isinstance(a.op, ast.Mod):
                                    K = term_to_poly(fa.sym.term(a.right, nd_n))
                                    S = term_to_poly(fa.sym.term(b, nd_n))
                                    n += 1
                                    ok = (K * S) == P
                                    o = rep.decide(ok, "G6.label-radix", fi, f"compose:{' '.join(ast.unparse(x).split())[:60]}",
                                                   f"stride x modulus = {P!r} = the declared class count",
                                                   f"the label is composed with stride {S!r} and modulus {K!r}, but getshape_class "
                                                   f"declares {P!r} classes: the composed labels do not fill [0, {P!r}) (gaps, or "
                                                   f"labels beyond the declared range)", line=x.lineno, clause="C16.1")
                                    # the stride counts the values of the low digit: where that digit is a quotient 'x // k', a
                                    # class count D yields ceil(D / k) values - a stride computed as D // k is one short whenever
                                    # k does not divide D, and two superclasses collide on one label
                                    sname = b.attr if isinstance(b, ast.Attribute) and isinstance(b.value, ast.Name) and \
                                        b.value.id == fa.self_name else None
                                    init = C.methods.get("__init__")
                                    if sname is None or init is None:
                                        continue
                                    ia_ = fa_of(prog, init)
                                    sdefs = [(m_, v_) for m_, var_, v_ in ia_.stores() if var_ == f"{ia_.self_name}.{sname}" and v_ is not None]
                                    divisors = set()
                                    for f2 in C.methods.values():
                                        for y in ast.walk(f2.node):
                                            if isinstance(y, ast.BinOp) and isinstance(y.op, ast.FloorDiv) and f2 is not init and \
                                                    isinstance(y.right, ast.Attribute) and isinstance(y.right.value, ast.Name):
                                                divisors.add(y.right.attr)
                                    for m_, v_ in sdefs:
                                        if isinstance(v_, ast.BinOp) and isinstance(v_.op, ast.FloorDiv):
                                            dv = v_.right
                                            dname = dv.id if isinstance(dv, ast.Name) else (dv.attr if isinstance(dv, ast.Attribute) else None)
                                            if dname in divisors:
                                                rep.bad("G6.label-radix", init, f"stride:{sname}",
                                                        f"self.{sname} = {ast.unparse(v_)[:60]} (line {v_.lineno}) counts the values of the low "
                                                        f"digit '... // self.{dname}' with a floor division: a class count that is not a multiple "
                                                        f"of {dname} has one more quotient value, so the last group shares its label with the "
                                                        f"first group of the next split (and exceeds the declared range without splits)",
                                                        line=v_.lineno, clause="C16.1")
                                        elif isinstance(v_, ast.Call) and getattr(v_.func, "attr", getattr(v_.func, "id", "")) == "ceil":
                                            rep.ok("G6.label-radix", init, f"stride:{sname}", "the stride is a rounded-up quotient",
                                                   line=v_.lineno, clause="C16.1", nontrivial=False)
    rep.floor("two-digit label compositions", n, 0)


def unlabeled_marker(prog: Program, rep: Report):
    """-1 marks 'no label' and must survive label-rewriting wrappers on every branch."""
    rep.rule("G8.unlabeled-marker", "a wrapper whose getitem_class returns the unlabeled marker unchanged on some path ('if y == -1: "
             "return <marker>') does so before any branch that rewrites the label: no path from the entry to a return that "
             "computes a new label value bypasses the marker test - an unlabeled sample never comes out as a smoothed / shifted "
             "-1 that is neither the marker nor a valid encoding")
    kdw = prog.cls("KDWrapper")
    n = 0
    for C in prog.subclasses(kdw, include_self=False):
        gi = C.methods.get("getitem_class")
        if gi is None:
            continue
        fa = fa_of(prog, gi)
        cfg = fa.cfg
        tests = []
        for t_n, nd in cfg.nodes.items():
            if nd.kind != "test" or isinstance(nd.owner, ast.Assert):
                continue
            for x in ast.walk(nd.ast):
                if isinstance(x, ast.Compare) and len(x.ops) == 1 and isinstance(x.ops[0], (ast.Eq, ast.NotEq)) and any(
                        isinstance(y, ast.UnaryOp) and isinstance(y.op, ast.USub) and isinstance(y.operand, ast.Constant)
                        and y.operand.value == 1 or (isinstance(y, ast.Constant) and y.value == -1)
                        for y in (x.left, x.comparators[0])):
                    tests.append(t_n)
        if not tests:
            continue
        n += 1
        rets = [r for r, nd in cfg.nodes.items() if nd.kind == "stmt" and isinstance(nd.ast, ast.Return)]
        # returning the wrapped dataset's label unchanged is no rewrite
        def passthrough(r):
            v = cfg.nodes[r].ast.value
            t = fa.sym.term(v, r) if v is not None else None
            if t is None:
                return False
            if t[0] == "call" and t[1] == ("attr", ("self", "dataset"), "getitem_class"):
                return True
            if t[0] == "var":
                vals = [cfg.def_value(d, t[1]) for d in t[2] if cfg.nodes[d].kind != "entry"]
                return bool(vals) and all(isinstance(x, ast.Call) and isinstance(x.func, ast.Attribute)
                                          and x.func.attr == "getitem_class" for x in vals)
            return False
        bypass = [r for r in rets if not cfg.must_pass(set(tests), src=cfg.entry, dst=r) and not passthrough(r)]
        rep.decide(not bypass, "G8.unlabeled-marker", gi, "marker-test-first", "every return lies behind the unlabeled-marker test",
                   f"a return (line {', '.join(str(cfg.nodes[r].lineno) for r in bypass[:3])}) is reachable without passing the "
                   f"'== -1' test: on that branch an unlabeled sample is rewritten like a labeled one", line=cfg.nodes[bypass[0]].lineno
                   if bypass else gi.node.lineno, clause="C16.3")
    rep.floor("label wrappers that test for the unlabeled marker", n, 1)


_NEG = {ast.Gt: ast.LtE, ast.GtE: ast.Lt, ast.Lt: ast.GtE, ast.LtE: ast.Gt}
_FLIP = {ast.Gt: ast.Lt, ast.GtE: ast.LtE, ast.Lt: ast.Gt, ast.LtE: ast.GtE}
_SYM = {ast.Gt: ">", ast.GtE: ">=", ast.Lt: "<", ast.LtE: "<="}


def threshold_twins(prog: Program, rep: Report):
    """per-sample and bulk label accessors turn a confidence into 'unlabeled' by the same comparison"""
    rep.rule("G9.threshold-twins", "where a label wrapper marks a sample unlabeled (-1) by comparing a confidence with a threshold "
             "attribute, the per-sample accessor ('return -1' behind the comparison) and the bulk accessor ('labels[<comparison>] = "
             "-1') use the same comparison with the same strictness: at confidence == threshold both give the same answer")
    kdw = prog.cls("KDWrapper")

    def oriented(cmp: ast.Compare, me: str):
        """(operator class, attribute) with the threshold attribute on the right-hand side"""
        if len(cmp.ops) != 1 or type(cmp.ops[0]) not in _NEG:
            return None
        l, r = cmp.left, cmp.comparators[0]
        is_thr = lambda e: isinstance(e, ast.Attribute) and isinstance(e.value, ast.Name) and e.value.id == me
        if is_thr(r) and not is_thr(l):
            return type(cmp.ops[0]), r.attr
        if is_thr(l) and not is_thr(r):
            return _FLIP[type(cmp.ops[0])], l.attr
        return None

    n = 0
    for C in prog.subclasses(kdw, include_self=False):
        bulk = C.methods.get("getall_class")
        gi = C.methods.get("getitem_class")
        if bulk is None or gi is None:
            continue
        per = {}   # attr -> set of operators under which -1 is returned
        for f in [gi] + [m for nm, m in C.methods.items() if nm.startswith("_getitem")]:
            fa = fa_of(prog.raw, f)
            me = fa.self_name
            for r, nd in fa.cfg.nodes.items():
                if not (nd.kind == "stmt" and isinstance(nd.ast, ast.Return) and nd.ast.value is not None
                        and fa.sym.term(nd.ast.value, r) == ("const", -1)):
                    continue
                for e_, pol_, c_, tn_ in fa.cond_parts_at(r):
                    if isinstance(e_, ast.Compare):
                        o = oriented(e_, me)
                        if o is not None:
                            per.setdefault(o[1], set()).add(o[0] if pol_ else _NEG[o[0]])
        if not per:
            continue
        fb = fa_of(prog.raw, bulk)
        me = fb.self_name
        blk = {}
        for n_, nd in fb.cfg.nodes.items():
            if nd.kind == "stmt" and isinstance(nd.ast, ast.Assign) and fb.sym.term(nd.ast.value, n_) == ("const", -1):
                for t in nd.ast.targets:
                    if isinstance(t, ast.Subscript):
                        m = t.slice
                        if isinstance(m, ast.Name):
                            defs = fb.cfg.reaching().get(n_, {}).get(m.id, set())
                            vals = [fb.cfg.def_value(d, m.id) for d in defs]
                            m = vals[0] if len(vals) == 1 else None
                        if isinstance(m, ast.Compare):
                            o = oriented(m, me)
                            if o is not None:
                                blk.setdefault(o[1], set()).add(o[0])
        for attr, ops in sorted(per.items()):
            if attr not in blk:
                continue
            n += 1
            a, b = sorted(_SYM[x] for x in ops), sorted(_SYM[x] for x in blk[attr])
            rep.decide(a == b, "G9.threshold-twins", bulk, f"self.{attr}", f"both accessors mark 'confidence {a[0]} self.{attr}' unlabeled",
                       f"getitem_class returns -1 where confidence {' / '.join(a)} self.{attr}, getall_class writes -1 where "
                       f"confidence {' / '.join(b)} self.{attr}: a sample whose confidence equals the threshold is labeled by one "
                       f"accessor and unlabeled by the other", clause="C16.1")
    if n == 0:
        rep.unk("G9.threshold-twins", kdw, "no-threshold-pair", "no wrapper with a threshold comparison in both accessors found",
                clause="C16.1")


def _reads_samples(fa: FA, e: ast.AST, at: int, depth: int = 5, _seen=None) -> bool:
    """The value is computed (through the definitions of its locals) from what an accessor of the wrapped dataset returned -
    getitem_* / getall_* / the bulk helpers - and not merely from its length or its configuration."""
    _seen = set() if _seen is None else _seen
    for y in ast.walk(e):
        if isinstance(y, ast.Call):
            f = y.func
            nm = f.attr if isinstance(f, ast.Attribute) else getattr(f, "id", "")
            if nm.startswith("getitem_") or nm.startswith("getall") or nm in ("get_class_counts", "get_class_counts_and_indices"):
                return True
            if isinstance(f, ast.Name) and f.id == "getattr" and len(y.args) >= 2:
                return True
        if isinstance(y, ast.Subscript) and isinstance(y.value, ast.Attribute) and y.value.attr == "dataset":
            return True
        if isinstance(y, ast.Name) and isinstance(y.ctx, ast.Load) and depth > 0:
            for d in fa.cfg.reaching().get(at, {}).get(y.id, ()):
                if (y.id, d) in _seen or fa.cfg.nodes[d].kind == "entry":
                    continue
                _seen.add((y.id, d))
                v = fa.cfg.def_value(d, y.id)
                if v is not None and _reads_samples(fa, v, d, depth - 1, _seen):
                    return True
    return False


def _attr_families(prog: Program, C: ClassInfo) -> Dict[str, str]:
    """attribute -> representative of its family: attributes that a constructor of the class computes from exactly one other
    attribute of self and nothing else of the configuration (self.indices = self._indices.tolist())."""
    parent: Dict[str, str] = {}

    def find(a):
        while parent.get(a, a) != a:
            a = parent[a]
        return a
    types = AttrTypes(prog)
    for owner, fi in types.init_chain(C):
        me = fi.params()[0] if fi.params() else "self"
        ps = set(fi.params()[1:])
        for st in ast.walk(fi.node):
            if isinstance(st, ast.Assign) and len(st.targets) == 1 and isinstance(st.targets[0], ast.Attribute) and \
                    isinstance(st.targets[0].value, ast.Name) and st.targets[0].value.id == me:
                used = {y.attr for y in ast.walk(st.value) if isinstance(y, ast.Attribute) and isinstance(y.value, ast.Name)
                        and y.value.id == me}
                names_ = {y.id for y in ast.walk(st.value) if isinstance(y, ast.Name)} - {me}
                if len(used) == 1 and not (names_ & ps):
                    a, b = find(st.targets[0].attr), find(next(iter(used)))
                    if a != b:
                        parent[a] = b
    return {a: find(a) for a in list(parent)}
