"""C13 - balanced / semi-supervised / weighted samplers compose epochs as promised (DESIGN §4 C13)."""
from __future__ import annotations

import ast
from typing import Optional

from ..core import Report
from ..deps import Deps
from ..fa import FA, fa_of
from ..model import FuncInfo, Program
from ..rules import names
from ..sym import Poly, Term, contains, leaves, poly_term, show, subterms, term_to_poly
from .c12 import draws, seed_deps, torch_generator_seed

FILES = ["kappadata/samplers/class_balanced_sampler.py", "kappadata/samplers/semi_sampler.py",
         "kappadata/samplers/weighted_sampler.py"]


def nested_defs(fi: FuncInfo):
    return [st for st in ast.walk(fi.node) if isinstance(st, (ast.FunctionDef, ast.AsyncFunctionDef)) and st is not fi.node]


def run(prog: Program, rep: Report, tier: str):
    rep.trusted += ["torch.randperm(n, generator=g) is a permutation of range(n); torch.multinomial(..., replacement=False) "
                    "returns distinct indices", "constructor asserts (every class / both pools non-empty)"]
    rep.not_decided += ["exact per-class counts and 'as evenly as possible' as values", "epoch length modes across world sizes",
                        "validity of the emitted indices as values"]
    epoch_state_fresh(prog, rep)
    semi(prog, rep)
    weighted(prog, rep)
    balanced(prog, rep)
    from .c03 import readers_pure
    readers_pure(prog, rep)  # the samplers read the labels through getall*: a memo on the dataset leaks through the wrappers
    # the epoch composition is a statement about all ranks together: the rank split / equal length clauses of C12 apply
    from .c12 import rank_split_rules
    for cname in ("ClassBalancedSampler", "WeightedSampler"):
        K = prog.cls(cname)
        it = prog.concrete_method(K, "__iter__")
        rep.require(it is not None, f"anchor-missing: {cname}.__iter__")
        rank_split_rules(prog, rep, K, it, fa_of(prog, it), "rank", "world_size", clause="C13.5")
    S = prog.cls("SemiSampler")
    ln = S.methods.get("__len__")
    if ln is not None:
        la = fa_of(prog, ln)
        rets = [t for _, t in la.returns() if t is not None]
        want = ("binop", "//", ("self", "effective_length"), ("self", "world_size"))
        rep.decide(len(rets) == 1 and rets[0] == want, "G9.rank-split", ln, "len",
                   "__len__ = effective_length // world size (the same on every rank)",
                   f"SemiSampler.__len__ returns {show(rets[0]) if rets else '?'}: per-rank streams are not equally long / do "
                   f"not follow the documented length mode", clause="C13.5")
    semi_length(prog, rep)
    from .c12 import rank_defaults
    rank_defaults(prog, rep, "C13.5")
    names.check(prog, rep, FILES, clause="C13.G1", floor=12)


def semi_length(prog: Program, rep: Report):
    """the documented length modes of the semi-supervised sampler"""
    rep.rule("G9.semi-length", "SemiSampler.effective_length is <number of whole chunks> * (num_labeled + num_unlabeled) with the "
             "chunks counted on the pool the mode names: 'labeled' len(labeled_idxs) // num_labeled, 'unlabeled' "
             "len(unlabeled_idxs) // num_unlabeled, 'all' (len(labeled_idxs) + len(unlabeled_idxs)) // (num_labeled + "
             "num_unlabeled) - judged per mode on the CFG pruned by that mode, as polynomial identities; another "
             "construction is not decided")
    S = prog.cls("SemiSampler")
    f = S.lookup("effective_length")
    if f is None:
        rep.unk("G9.semi-length", S, "effective_length", "no effective_length found", clause="C13.5")
        return
    fa = fa_of(prog, f)
    rep.analysed_add("functions", f"{f.module.relpath}:{f.qualname}")
    ln = lambda a: ("call", ("global", "len"), (("self", a),), ())
    nl, nu = Poly.atom(("self", "num_labeled")), Poly.atom(("self", "num_unlabeled"))
    want = {
        "labeled": (Poly.atom(ln("labeled_idxs")), nl),
        "unlabeled": (Poly.atom(ln("unlabeled_idxs")), nu),
        "all": (Poly.atom(ln("labeled_idxs")) + Poly.atom(ln("unlabeled_idxs")), nl + nu),
    }
    modes = sorted({x[1][1][1] for n, nd in fa.cfg.nodes.items() if nd.kind == "test" for x in subterms(fa.sym.term(nd.ast, n))
                    if x[0] == "eq" and False} | set(want))
    for mode in modes:
        case = {}
        for n, nd in fa.cfg.nodes.items():
            if nd.kind != "test":
                continue
            t = fa.sym.term(nd.ast, n)
            for m2 in want:
                for cand in [(tag_, pair_) for tag_ in ("eq", "eqv") for pair_ in (
                        (("const", m2), ("self", "length_mode")), (("self", "length_mode"), ("const", m2)))]:
                    if t == cand:
                        case[t] = (m2 == mode)
        pa = fa.prune(case) if case else fa
        rets = [(n, t) for n, t in pa.returns() if t is not None and n in pa.cfg.nodes and pa.cfg.reachable(pa.cfg.entry, n)]
        if len(rets) != 1 or not case:
            rep.unk("G9.semi-length", f, f"mode:{mode}", "the length of this mode is not a single expression selected by "
                    "'self.length_mode == <mode>': not decided", clause="C13.5")
            continue
        p = term_to_poly(rets[0][1])
        fds = [a for a in p.atoms() if a[0] == "binop" and a[1] == "//"]
        ok = None
        why = f"effective_length for mode '{mode}' is {show(rets[0][1])[:90]}: another construction, not decided"
        if len(fds) == 1:
            num, den = term_to_poly(fds[0][2]), term_to_poly(fds[0][3])
            wnum, wden = want[mode]
            whole = Poly.atom(fds[0]) * (nl + nu)
            if p.key() == whole.key():
                ok = num.key() == wnum.key() and den.key() == wden.key()
                why = (f"mode '{mode}': chunks = {show(fds[0])[:80]}" if ok else
                       f"mode '{mode}' counts its chunks as {show(fds[0])[:100]}, documented is "
                       f"({show(poly_term(wnum))}) // ({show(poly_term(wden))}): the epoch length does not match the length mode")
            elif len(p.terms) >= 1 and all(any(a == fds[0] for a, _ in k) for k in p.terms):
                ok = False
                why = (f"mode '{mode}': the chunk count {show(fds[0])[:60]} is multiplied by {show(poly_term(p))[:80]}, not by "
                       f"num_labeled + num_unlabeled")
        rep.decide(ok, "G9.semi-length", f, f"mode:{mode}", why, why, line=pa.line(rets[0][0]), clause="C13.5")


def epoch_state_fresh(prog: Program, rep: Report):
    """Iterators that outlive one epoch: created in the constructor (or anywhere but __iter__), consumed by __iter__."""
    rep.rule("G8.epoch-state-fresh", "__iter__ of a composition sampler builds the streams it consumes: no attribute of the sampler "
             "holds an iterator - the result of calling a generator method / function, iter(...), an itertools object, a "
             "generator expression, or a list / dict of those - that is created outside __iter__ and advanced (next / islice / "
             "for / yield from) inside it.  Such a stream continues in the next epoch where the previous one stopped: the "
             "leftover of one epoch's last permutation is emitted before a fresh one, so an epoch no longer uses every sample of "
             "a pool as evenly as possible (and the epoch is no function of (seed, epoch))")
    n = 0
    for cname in ("SemiSampler", "ClassBalancedSampler", "WeightedSampler"):
        C = prog.raw.cls(cname)
        it = C.lookup("__iter__")
        if it is None:
            continue
        n += 1
        all_methods = {}
        for K_ in reversed(C.mro_classes()):
            all_methods.update(K_.methods)
        gens = {f.name for f in all_methods.values() if any(isinstance(y, (ast.Yield, ast.YieldFrom)) for y in ast.walk(f.node))}

        def is_iterator_expr(e) -> bool:
            if isinstance(e, ast.GeneratorExp):
                return True
            if isinstance(e, ast.Call):
                f = e.func
                nm = f.attr if isinstance(f, ast.Attribute) else getattr(f, "id", "")
                if nm in gens and nm != "__iter__" and isinstance(f, ast.Attribute) and _nm(f.value) == "self":
                    return True
                if nm in ("iter", "cycle", "chain", "islice", "repeat", "count", "zip", "map", "filter", "enumerate", "reversed"):
                    return True
            if isinstance(e, (ast.List, ast.Tuple)):
                return any(is_iterator_expr(x) for x in e.elts)
            if isinstance(e, (ast.ListComp, ast.SetComp)):
                return is_iterator_expr(e.elt)
            if isinstance(e, ast.DictComp):
                return is_iterator_expr(e.value)
            if isinstance(e, ast.Dict):
                return any(is_iterator_expr(v) for v in e.values)
            return False
        held = {}
        for f in all_methods.values():
            if f.name == "__iter__" or f.name in gens:
                continue
            for st in ast.walk(f.node):
                if isinstance(st, ast.Assign) and is_iterator_expr(st.value):
                    for t in st.targets:
                        if isinstance(t, ast.Attribute) and _nm(t.value) == "self":
                            held[t.attr] = (f.name, st.lineno)
        used = sorted({y.attr for y in ast.walk(it.node) if isinstance(y, ast.Attribute) and _nm(y.value) == "self" and y.attr in held})
        # also through helpers called on self from __iter__
        for y in ast.walk(it.node):
            if isinstance(y, ast.Call) and isinstance(y.func, ast.Attribute) and _nm(y.func.value) == "self" and y.func.attr in all_methods:
                h = all_methods[y.func.attr]
                used = sorted(set(used) | {z.attr for z in ast.walk(h.node) if isinstance(z, ast.Attribute) and _nm(z.value) == "self"
                                            and z.attr in held})
        rep.decide(not used, "G8.epoch-state-fresh", it, "no-iterator-attribute", "every stream consumed by __iter__ is created in it",
                   "; ".join(f"self.{a} holds an iterator created in {held[a][0]} (line {held[a][1]}) and is consumed by __iter__"
                             for a in used) + ": the next epoch continues where this one stopped", line=it.node.lineno,
                   clause="C13.3")
    rep.floor("composition samplers checked for per-epoch streams", n, 3)


def _nm(e):
    return e.id if isinstance(e, ast.Name) else None


def semi(prog: Program, rep: Report):
    rep.rule("G4.semi-seed", "SemiSampler: every draw takes generator=; the stream generator's seed depends (transitively) on "
             "self.seed, self.rank and self.epoch - per-rank, per-epoch, reproducible streams")
    rep.rule("G9.semi-pools", "SemiSampler: position i of the stream is labeled iff i % (num_labeled + num_unlabeled) < "
             "num_labeled; the labeled branch indexes self.labeled_idxs with the next element of the iterator built over "
             "self.labeled_idxs (same for unlabeled); the pool iterator yields a whole permutation of range(len(pool)) before "
             "drawing the next one; the stream has len(self) positions")
    C = prog.cls("SemiSampler")
    fi = prog.concrete_method(C, "__iter__")
    rep.require(fi is not None, "anchor-missing: SemiSampler.__iter__")
    fa = fa_of(prog, fi)
    dep = Deps(fa)
    rep.analysed_add("functions", f"{fi.module.relpath}:{fi.qualname}")
    for n, call, kind, gen in draws(prog, fa):
        rep.decide(kind == "gen", "G4.semi-seed", fi, f"draw:{' '.join(ast.unparse(call).split())[:70]}",
                   "draw with an explicit generator", "draw without generator=: process-global Torch RNG", line=call.lineno,
                   clause="C13.1", nontrivial=False)
    # the stream generator: the variable the nested pool iterator closes over
    inner = nested_defs(fi)
    stream_gen_names = set()
    inner_ok = None
    for d in inner:
        dfi = FuncInfo(d.name, f"{fi.qualname}.{d.name}", fi.module, d, None)
        dfa = FA(prog, dfi)
        rep.analysed_add("functions", f"{fi.module.relpath}:{dfi.qualname}")
        for n, call, kind, gen in draws(prog, dfa):
            if kind != "gen":
                rep.bad("G4.semi-seed", fi, f"draw:{' '.join(ast.unparse(call).split())[:70]}",
                        "the pool iterator draws without generator=", line=call.lineno, clause="C13.1")
                continue
            if gen[0] == "global":
                stream_gen_names.add(gen[1].rsplit(".", 1)[-1])
            elif gen[0] == "param":
                stream_gen_names.add(gen[1])
        # shape: while True: yield from randperm(len(<param>), generator=...).tolist()
        ps = dfi.params()
        yf = [(n, y) for n, y in dfa.yields()]
        ok = None
        if len(yf) == 1 and isinstance(yf[0][1], ast.YieldFrom) and ps:
            t = dfa.sym.term(yf[0][1].value, yf[0][0])
            perms = [s for s in subterms(t) if s[0] == "call" and s[1] == ("global", "torch.randperm")]
            if len(perms) == 1 and perms[0][2]:
                n_arg = perms[0][2][0]
                ok = n_arg == ("call", ("global", "len"), (("param", ps[0]),), ())
                # endless: the yield is inside a loop that never exits
                ok = ok and not dfa.cfg.reachable(dfa.cfg.entry, dfa.cfg.exit)
        if ok is None:
            # a pool iterator whose randomness is not a permutation draw can repeat elements at any time
            other = [c for _, c, _, _ in draws(prog, dfa) if dfa.sym.term(c, dfa.cfg.node_of(c))[1] != ("global", "torch.randperm")]
            if other:
                ok = False
        inner_ok = ok
        rep.decide(ok, "G9.semi-pools", fi, f"pool-iterator:{d.name}",
                   "yields whole permutations of range(len(pool)), endlessly",
                   "the pool iterator does not yield one whole permutation of range(len(pool)) after another (elements can "
                   "repeat before the pool is exhausted, or the iterator ends)", line=d.lineno, clause="C13.2")
    gen_defs = [(n, val) for n, var, val in fa.stores() if var in stream_gen_names and val is not None]
    if not gen_defs:
        rep.unk("G4.semi-seed", fi, "stream-generator", "stream generator not found", clause="C13.1")
    for n, val in gen_defs:
        seed, attrs, others = seed_deps(fa, dep, fa.sym.term(val, n))
        if seed is None:
            rep.unk("G4.semi-seed", fi, "stream-generator", "generator not of the form torch.Generator().manual_seed(...)",
                    line=fa.line(n), clause="C13.1")
            continue
        missing = sorted({"seed", "rank", "epoch"} - attrs)
        rep.decide(not missing, "G4.semi-seed", fi, "stream-generator",
                   f"stream seed depends on {{{', '.join(sorted(attrs))}}}",
                   f"the stream seed does not depend on self.{', self.'.join(missing)}" + (
                       ": all ranks emit the same stream" if "rank" in missing else ""), line=fa.line(n), clause="C13.1")
    # ---- pools ----------------------------------------------------------------------------------------------------
    ys = [(n, y) for n, y in fa.yields() if isinstance(y, ast.Yield)]
    L, U = ("self", "num_labeled"), ("self", "num_unlabeled")
    seen = set()
    for n, y in ys:
        t = fa.sym.term(y.value, n)
        construct = f"yield:{' '.join(ast.unparse(y.value).split())[:60]}"
        if not (t[0] == "sub" and t[1][0] == "self" and t[2][0] == "call" and t[2][1] == ("global", "next") and t[2][2]):
            rep.unk("G9.semi-pools", fi, construct, "yield of unrecognised shape", line=fa.line(n), clause="C13.2")
            continue
        pool = t[1][1]
        it = t[2][2][0]
        pools_ = {("self", "labeled_idxs"), ("self", "unlabeled_idxs")}
        args_ = (list(it[2]) + [v for k, v in it[3] if not str(k).startswith("#")]) if it[0] == "call" else []
        # the iterator is built over this pool (and over no other pool), whatever else it is given (a generator ...)
        same_pool = ("self", pool) in args_ and not ((pools_ - {("self", pool)}) & set(args_))
        if it[0] == "call" and not (pools_ & set(args_)):
            same_pool = None  # built from something else (a local, a length): not decided
        conds = fa.conds_at(n)
        # i % (L+U) < L   <=>   ('lt', i % (L+U) - L)
        role = None
        for c in conds:
            if c[0] in ("lt", "le"):
                p = term_to_poly(c[1])
                mods = [a for a in p.atoms() if a[0] == "binop" and a[1] == "%"]
                if len(mods) == 1 and term_to_poly(mods[0][3]) == Poly.atom(L) + Poly.atom(U):
                    iv = mods[0][2]
                    if c[0] == "lt" and p == Poly.atom(mods[0]) - Poly.atom(L):
                        role = "labeled"
                    elif c[0] == "le" and p == Poly.atom(L) - Poly.atom(mods[0]):
                        role = "unlabeled"
                    else:
                        role = "?"
        want_pool = {"labeled": "labeled_idxs", "unlabeled": "unlabeled_idxs"}.get(role)
        seen.add(role)
        rep.decide(None if (role is None or same_pool is None) else (same_pool and pool == want_pool), "G9.semi-pools", fi, construct,
                   f"{role} position -> self.{pool}[next(iterator over self.{pool})]",
                   (f"a {role} position yields from self.{pool}" if pool != want_pool else
                    f"self.{pool} is indexed with an iterator built over {show(it)}: indices of the other pool's size"),
                   line=fa.line(n), clause="C13.2")
    if not ys:
        # no per-position yields at all: another construction of the stream
        chunk = _semi_chunk_form(fa, L, U)
        if chunk is None:
            rep.unk("G9.semi-pools", fi, "both-pools", "the stream is neither written position by position (i % (L+U) < L) nor "
                    "chunk by chunk (islice of the pool iterators): not decided", clause="C13.2")
        else:
            for construct, ok_, why_ in chunk:
                rep.decide(ok_, "G9.semi-pools", fi, construct, why_, why_, clause="C13.2")
        return
    rep.decide({"labeled", "unlabeled"} <= seen, "G9.semi-pools", fi, "both-pools",
               "both a labeled and an unlabeled branch exist with the i % (L+U) < L split",
               "the stream is not split by i % (num_labeled + num_unlabeled) < num_labeled", clause="C13.2")
    loops = [nd for n, nd in fa.cfg.nodes.items() if nd.kind == "iter"]
    ln_self = ("call", ("global", "len"), (("param", fa.self_name),), ())
    ok = any(fa.sym.term(nd.ast, i) in (("call", ("global", "range"), (ln_self,), ()),
                                        ("call", ("global", "range"), (("const", 0), ln_self), ()))
             for i, nd in fa.cfg.nodes.items() if nd.kind == "iter")
    rep.decide(ok, "G9.semi-pools", fi, "length", "for i in range(len(self))", "the stream length is not len(self)",
               clause="C13.2", nontrivial=False)


def _semi_chunk_form(fa: FA, L: Term, U: Term):
    """The chunk-wise spelling of the semi-supervised stream:
        full, trail = divmod(len(self), L + U)
        for _ in range(full): yield from islice(lab, L); yield from islice(unl, U)
        yield from islice(lab, min(trail, L)); yield from islice(unl, max(trail - L, 0))
    -> [(construct, verdict, text)] or None when the function is not of this shape."""
    cfg = fa.cfg
    me = fa.self_name
    ln_self = ("call", ("global", "len"), (("param", me),), ())
    # pool iterators: locals bound to a call that is given exactly one of the pools
    pools = {("self", "labeled_idxs"): "labeled", ("self", "unlabeled_idxs"): "unlabeled"}
    its = {}
    for n, var, val in fa.stores():
        if val is None or "." in var:
            continue
        t = fa.sym.term(val, n)
        if t[0] == "call":
            args_ = list(t[2]) + [v for k, v in t[3] if not str(k).startswith("#")]
            hit = [pools[a] for a in args_ if a in pools]
            if len(hit) == 1:
                its[var] = hit[0]
    if len(set(its.values())) != 2:
        return None
    slices = []  # (node, role, count term, inside loop node or None)
    for n, y in fa.yields():
        if not isinstance(y, ast.YieldFrom):
            return None
        v = y.value
        if not (isinstance(v, ast.Call) and ((isinstance(v.func, ast.Name) and v.func.id == "islice") or (
                isinstance(v.func, ast.Attribute) and v.func.attr == "islice")) and len(v.args) == 2 and
                isinstance(v.args[0], ast.Name) and v.args[0].id in its):
            return None
        loop = None
        for t_, lab in cfg.control_predicates(n):
            if cfg.nodes[t_].kind == "next" and n in cfg.nodes_inside(cfg.nodes[t_].owner.body):
                loop = t_
        cnt = v.args[1]
        node = n
        if isinstance(cnt, ast.Name):
            ds = [d for d in cfg.reaching().get(n, {}).get(cnt.id, ()) if cfg.nodes[d].kind != "entry"]
            if len(ds) == 1 and cfg.def_value(ds[0], cnt.id) is not None and isinstance(cfg.def_value(ds[0], cnt.id), ast.Call):
                cnt, node = cfg.def_value(ds[0], cnt.id), ds[0]
        slices.append((n, its[v.args[0].id], fa.sym.term(cnt, node), loop))
    if len(slices) != 4:
        return None
    # divmod(len(self), L + U)
    dm = None
    for n, nd in cfg.nodes.items():
        st = nd.ast if nd.kind == "stmt" else None
        if isinstance(st, ast.Assign) and isinstance(st.targets[0], ast.Tuple) and len(st.targets[0].elts) == 2 and \
                isinstance(st.value, ast.Call) and isinstance(st.value.func, ast.Name) and st.value.func.id == "divmod" and \
                len(st.value.args) == 2 and all(isinstance(e, ast.Name) for e in st.targets[0].elts):
            dm = (n, st.targets[0].elts[0].id, st.targets[0].elts[1].id, fa.sym.term(st.value.args[0], n),
                  fa.sym.term(st.value.args[1], n))
    if dm is None:
        return None
    n_dm, full, trail, num, den = dm
    out = []
    chunk = Poly.atom(L) + Poly.atom(U)
    out.append(("chunks", num == ln_self and term_to_poly(den) == chunk,
                "full chunks and trailing positions = divmod(len(self), num_labeled + num_unlabeled)" if num == ln_self and
                term_to_poly(den) == chunk else f"the stream is divided as divmod({show(num)}, {show(den)}), not divmod(len(self), "
                                               f"num_labeled + num_unlabeled)"))
    in_loop = [s_ for s_ in slices if s_[3] is not None]
    after = [s_ for s_ in slices if s_[3] is None]
    if len(in_loop) != 2 or len(after) != 2 or in_loop[0][3] != in_loop[1][3]:
        return None
    lp = cfg.nodes[in_loop[0][3]].owner
    it_t = fa.sym.term(lp.iter, cfg.stmt_node[lp])
    full_t = None
    if it_t[0] == "call" and it_t[1] == ("global", "range") and len(it_t[2]) == 1:
        full_t = it_t[2][0]
    out.append(("chunk-count", full_t is not None and full_t[0] == "var" and full_t[1] == full,
                "the chunk loop runs once per full chunk", ) if full_t is not None and full_t[0] == "var" and full_t[1] == full else
               ("chunk-count", False, f"the chunk loop runs {show(it_t)} times, not once per full chunk"))
    a_, b_ = in_loop
    in_loop = [a_, b_] if cfg.reachable(a_[0], b_[0], avoid={a_[3]}) else [b_, a_]
    ok_order = [s_[1] for s_ in in_loop] == ["labeled", "unlabeled"]
    ok_counts = in_loop[0][2] == L and in_loop[1][2] == U
    out.append(("chunk-body", ok_order and ok_counts,
                "every full chunk is num_labeled labeled followed by num_unlabeled unlabeled positions" if ok_order and ok_counts else
                f"a full chunk takes {show(in_loop[0][2])} {in_loop[0][1]} then {show(in_loop[1][2])} {in_loop[1][1]} positions, not "
                f"num_labeled labeled followed by num_unlabeled unlabeled"))
    a_, b_ = after
    after = [a_, b_] if cfg.reachable(a_[0], b_[0]) else [b_, a_]
    T = None
    for lf in leaves(after[0][2]) | leaves(after[1][2]):
        if lf[0] == "var" and lf[1] == trail:
            T = lf
    if T is None:
        return out + [("trailing", None, "the trailing positions are not derived from the remainder of the division: not decided")]

    def is_min(t, a, b):
        return t[0] == "call" and t[1] == ("global", "min") and set(t[2]) == {a, b}

    def is_max0(t, inner_poly):
        if not (t[0] == "call" and t[1] == ("global", "max") and len(t[2]) == 2):
            return False
        a, b = t[2]
        for x, y in ((a, b), (b, a)):
            if y == ("const", 0) and term_to_poly(x) == inner_poly:
                return True
        return False
    ok_l = after[0][1] == "labeled" and is_min(after[0][2], T, L)
    ok_u = after[1][1] == "unlabeled" and is_max0(after[1][2], Poly.atom(T) - Poly.atom(L))
    out.append(("trailing", ok_l and ok_u,
                "the trailing positions are min(rest, num_labeled) labeled followed by max(rest - num_labeled, 0) unlabeled"
                if ok_l and ok_u else
                f"the trailing positions are {show(after[0][2])} {after[0][1]} followed by {show(after[1][2])} {after[1][1]}: not "
                f"min(rest, num_labeled) labeled followed by max(rest - num_labeled, 0) unlabeled - the epoch is not len(self) long "
                f"or the labeled / unlabeled alternation breaks at its end"))
    return out


def weighted(prog: Program, rep: Report):
    rep.rule("G9.weighted-no-repeat", "WeightedSampler draws the epoch with torch.multinomial(weights, effective_length, "
             "replacement=False, generator=...): an index cannot repeat within an epoch")
    C = prog.cls("WeightedSampler")
    fi = prog.concrete_method(C, "__iter__")
    rep.require(fi is not None, "anchor-missing: WeightedSampler.__iter__")
    fa = fa_of(prog, fi)
    rep.analysed_add("functions", f"{fi.module.relpath}:{fi.qualname}")
    ms = [(n, c) for n, c in fa.calls() if fa.sym.term(c, n)[1] == ("global", "torch.multinomial")]
    if not ms:
        rep.unk("G9.weighted-no-repeat", fi, "multinomial", "no torch.multinomial draw found", clause="C13.3")
    for n, c in ms:
        t = fa.sym.term(c, n)
        kws = dict(t[3])
        repl = kws.get("replacement", t[2][2] if len(t[2]) > 2 else ("const", False))
        num = kws.get("num_samples", t[2][1] if len(t[2]) > 1 else None)
        w = kws.get("input", t[2][0] if t[2] else None)
        gen = kws.get("generator")
        fresh = gen is not None and torch_generator_seed(gen) is not None
        rep.decide(fresh, "G9.weighted-no-repeat", fi, "fresh-generator",
                   "the epoch's generator is constructed (and seeded) inside __iter__",
                   f"the draw uses {show(gen) if gen else 'the global RNG'} instead of a generator built in this iteration: "
                   f"ranks that iterated a different number of times draw different global orders, so the union of their "
                   f"slices repeats indices within an epoch", line=c.lineno, clause="C13.3")
        # one global draw for all ranks: the seed of the epoch's generator is the same on every rank
        seed_t = torch_generator_seed(gen) if gen is not None else None
        if seed_t is not None:
            per_rank = sorted({lf[1] for lf in leaves(seed_t) if lf[0] == "self" and lf[1] in ("rank", "world_size")} |
                              {lf[1] for lf in leaves(seed_t) if lf[0] == "global" and lf[1].rsplit(".", 1)[-1] in ("get_rank",)})
            rep.decide(not per_rank, "G9.weighted-no-repeat", fi, "one-draw-for-all-ranks",
                       "the seed of the epoch's draw does not depend on the rank",
                       f"the seed of the epoch's draw depends on {', '.join(per_rank)}: every rank strides over a draw of its own, "
                       f"so an index can be emitted by two ranks in the same epoch (and others by none)", line=c.lineno,
                       clause="C13.3")
        # the whole epoch, or exactly the part of it that the ranks consume (the first len(self) * world entries of the same draw)
        used_part = num is not None and term_to_poly(num) == term_to_poly(
            ("call", ("global", "len"), (("param", fa.self_name),), ())) * term_to_poly(("self", "world_size"))
        ok = repl == ("const", False) and (num == ("self", "effective_length") or used_part) and w == ("self", "weights")
        rep.decide(ok, "G9.weighted-no-repeat", fi, "multinomial",
                   "multinomial(self.weights, self.effective_length, replacement=False)",
                   f"multinomial is called with replacement={show(repl)}, num_samples={show(num) if num else '?'}, "
                   f"weights={show(w) if w else '?'}", line=c.lineno, clause="C13.3")


def balanced(prog: Program, rep: Report):
    rep.rule("G8.balanced-progress", "ClassBalancedSampler: for every class the loop runs while the remaining count is positive, "
             "takes perm[:remaining] of a permutation (or arange) of len(that class's pool), appends pool[perm] of the same "
             "pool and decrements the remaining count by the number taken; it starts from self.samples_per_class per class")
    C = prog.cls("ClassBalancedSampler")
    fi = prog.concrete_method(C, "__iter__")
    rep.require(fi is not None, "anchor-missing: ClassBalancedSampler.__iter__")
    fa = fa_of(prog, fi)
    cfg = fa.cfg
    rep.analysed_add("functions", f"{fi.module.relpath}:{fi.qualname}")
    # the class loop
    cl = [(n, nd) for n, nd in cfg.nodes.items() if nd.kind == "iter" and fa.sym.term(nd.ast, n) == ("self", "indices_per_class")]
    rep.require(len(cl) == 1, "anchor-missing: loop over self.indices_per_class")
    n_it, nd = cl[0]
    loop = nd.owner
    nxt = cfg.out_edge(n_it, None)
    pool = ("var", loop.target.id, frozenset({nxt})) if isinstance(loop.target, ast.Name) else None
    wl = [(n, x) for n, x in cfg.nodes.items() if x.kind == "test" and isinstance(x.owner, ast.While)
          and n in cfg.nodes_inside(loop.body)]
    if pool is None or len(wl) != 1:
        rep.unk("G8.balanced-progress", fi, "shape", "per-class loop of unrecognised shape", clause="C13.4")
        return
    wn, wnd = wl[0]
    wt = fa.sym.term(wnd.ast, wn)
    rem = None
    if wt[0] == "lt":  # 0 < rem  <=> ('lt', -rem)
        p = term_to_poly(wt[1])
        at = list(p.atoms())
        if len(at) == 1 and p.coeff_of(at[0]).const_value() == -1 and at[0][0] == "var":
            rem = at[0][1]
    if rem is None:
        rep.unk("G8.balanced-progress", fi, "shape", f"while condition {show(wt)} is not '<remaining> > 0'", clause="C13.4")
        return
    body = cfg.nodes_inside(wnd.owner.body)
    init = [(n, val) for n, var, val in fa.stores() if var == rem and n not in body]
    ok_init = len(init) == 1 and init[0][1] is not None and fa.sym.term(init[0][1], init[0][0]) == ("self", "samples_per_class") \
        and init[0][0] in cfg.nodes_inside(loop.body)
    rep.decide(ok_init, "G8.balanced-progress", fi, "init", f"'{rem}' = self.samples_per_class for every class",
               f"'{rem}' is not (re)initialised with self.samples_per_class inside the per-class loop",
               line=fa.line(init[0][0]) if init else fa.line(wn), clause="C13.4")
    # appends inside the while body
    apps = [(n, c) for n, c in fa.calls_named("append") if n in body]
    decs = [(n, op, e) for n, op, e in fa.updates(rem, ops=(ast.Sub,)) if n in body]
    if len(apps) != 1 or len(decs) != 1:
        rep.unk("G8.balanced-progress", fi, "body", "while body of unrecognised shape", clause="C13.4")
        return
    an, ac = apps[0]
    at_ = fa.sym.term(ac.args[0], an)
    ok_app = at_[0] == "sub" and at_[1] == pool
    taken = at_[2] if at_[0] == "sub" else None
    # taken must be a prefix slice [:rem] of a perm / arange over len(pool)
    ok_taken = None
    if taken is not None:
        srcs = _perm_sources(fa, taken)
        ok_taken = bool(srcs) and all(
            s[0] == "sub" and s[2][0] == "slice" and s[2][1] is None and s[2][2][:2] == ("var", rem) and s[2][3] is None
            and _is_perm_of(s[1], pool, fa) for s in srcs)
    rep.decide(ok_app and ok_taken, "G8.balanced-progress", fi, "take",
               "appends pool[perm[:remaining]] with perm over len(pool) of the same pool",
               "the appended indices are not pool[perm[:remaining]] with a permutation of the same pool's length (indices of "
               "another class, out-of-range positions, or more than the remaining count)", line=fa.line(an), clause="C13.4")
    dn, dop, dexpr = decs[0]
    dt = fa.sym.term(dexpr, dn)
    ok_dec = dop is ast.Sub and dt[0] == "call" and dt[1] == ("global", "len") and taken is not None and (
        dt[2][0] == taken or _strip_versions(dt[2][0]) == _strip_versions(taken))
    rep.decide(ok_dec and cfg.reachable(an, dn, avoid={wn}) or (ok_dec and cfg.reachable(dn, an, avoid={wn})),
               "G8.balanced-progress", fi, "decrement",
               f"'{rem}' -= len(<indices taken>)", f"'{rem}' is not decreased by the number of indices taken in this round",
               line=fa.line(dn), clause="C13.4")


def _strip_versions(t):
    if isinstance(t, tuple):
        if t and t[0] == "var" and len(t) == 3:
            return ("var", t[1])
        return tuple(_strip_versions(x) for x in t)
    return t


def _perm_sources(fa: FA, t: Term):
    """Resolve a versioned variable to the terms of its definitions (one level)."""
    if t[0] == "var":
        out = []
        for d in t[2]:
            nd = fa.cfg.nodes[d]
            val = fa.cfg.def_value(d, t[1])
            if val is None:
                return []
            out.append(fa.sym.term(val, d))
        return out
    return [t]


def _is_perm_of(t: Term, pool: Term, fa: FA) -> bool:
    ln = ("call", ("global", "len"), (pool,), ())
    for s in _perm_sources(fa, t):
        if not (s[0] == "call" and s[1] in (("global", "torch.randperm"), ("global", "torch.arange")) and s[2]
                and s[2][0] == ln):
            return False
    return bool(_perm_sources(fa, t))
