"""C04 - interleaved scheduler: main stream, batch cutting and stopping point (DESIGN §4 C04)."""
from __future__ import annotations

import ast
from typing import List, Optional, Set, Tuple

from ..core import Report
from ..fa import fa_of
from ..model import Program
from ..rules import names
from ..sym import poly_term, Poly, Term, leaves, negate, show, term_to_poly
from .sampler_common import FILE, Roles, eq_atoms, split_eq, yields_at


def _is_len_main(t: Term) -> bool:
    return t == ("call", ("global", "len"), (("self", "main_sampler"),), ())


def _attr_of(t: Term) -> Optional[str]:
    """self attribute a term denotes, whether unmodified ('self', a) or re-assigned in the function
    ('var', 'self.a', defs)."""
    if t[0] == "self":
        return t[1]
    if t[0] == "var" and t[1].startswith("self."):
        return t[1][5:]
    return None


def breaks_of(loop: ast.For) -> List[ast.Break]:
    out = []

    def walk(stmts):
        for st in stmts:
            if isinstance(st, ast.Break):
                out.append(st)
            elif isinstance(st, (ast.For, ast.While, ast.AsyncFor, ast.FunctionDef, ast.ClassDef)):
                continue
            else:
                for fld in ("body", "orelse", "finalbody"):
                    walk(getattr(st, fld, []) or [])
                for h in getattr(st, "handlers", []) or []:
                    walk(h.body)

    walk(loop.body)
    return out


def set_epoch_rule(rep: Report, R, E: str, clause: str):
    """main_sampler.set_epoch(<epoch counter>) before every epoch's iteration (shared by C04 and C06)."""
    fa, cfg, fi = R.fa, R.fa.cfg, R.fi
    N, I = R.main_next, R.main_iter
    if getattr(R, "main_source_node", None) is not None:
        I = R.main_source_node  # islice(self.main_sampler, ..) takes iter() of the sampler where it is created
    chunked = I is None and getattr(R, "chunk_source_node", None) is not None
    if chunked:
        # 'it = iter(self.main_sampler)' consumed in chunks: the epoch's iteration starts where iter() is taken
        I = R.chunk_source_node
        N = cfg.out_edge(I, None)
    # ---- 1. set_epoch ----------------------------------------------------------------------------------
    rep.rule("G8.set_epoch", "main_sampler.set_epoch(<epoch counter>) lies on every path to each epoch's iteration of the "
             "main sampler (first epoch and every later one), is guarded by nothing but the hasattr test, and its "
             "argument is the epoch counter itself")
    se = [(n, c) for n, c in fa.calls() if isinstance(c.func, ast.Attribute) and c.func.attr == "set_epoch"
          and fa.sym.term(c.func.value, n) == ("self", "main_sampler")]
    has_tests = [n for n, nd in cfg.nodes.items() if nd.kind == "test" and R.term_at(n) == (
        "call", ("global", "hasattr"), (("self", "main_sampler"), ("const", "set_epoch")), ())]
    if not se:
        rep.bad("G8.set_epoch", fi, "announce", "the main sampler is never told the epoch (no set_epoch call)",
                clause=clause)
    else:
        removed = [(n, cfg.out_edge(n, False), False) for n in has_tests if cfg.out_edge(n, False) is not None]
        pc = cfg.pruned(removed)
        nodes = {n for n, _ in se}
        first = pc.must_pass(nodes, src=pc.entry, dst=I)
        later = not pc.reachable(N, I, avoid=nodes)
        inside = False if chunked else any(n in R.loop_body_nodes(N) for n in nodes)
        rep.decide(first and later and not inside, "G8.set_epoch", fi, "announce-before-each-epoch",
                   "set_epoch dominates the main iteration of the first and of every later epoch",
                   ("first epoch can start without set_epoch; " if not first else "") +
                   ("a later epoch can start without set_epoch; " if not later else "") +
                   ("set_epoch is called inside the per-index loop" if inside else ""),
                   line=R.line(se[0][0]), clause=clause)
        for n, c in se:
            t = fa.sym.term(c.args[0], n) if len(c.args) == 1 and not c.keywords else None
            ok = t is not None and ((t[0] == "var" and t[1] == E) or t == ("self", "start_epoch"))
            rep.decide(ok, "G8.set_epoch", fi, "argument", f"argument is the epoch counter '{E}'",
                       f"argument {ast.unparse(c.args[0]) if c.args else '?'} is not the epoch counter '{E}' itself",
                       line=R.line(n), clause=clause)
            # (the header test of a loop around the epochs - 'while True' / 'while not finished' - is not a guard of the call:
            # inside the loop body it holds by construction)
            guards = [(t_, lab) for t_, lab in cfg.control_predicates(n)
                      if cfg.nodes[t_].kind == "test" and t_ not in has_tests
                      and not (isinstance(cfg.nodes[t_].ast, ast.Constant))
                      and not (isinstance(cfg.nodes[t_].owner, ast.While) and n in cfg.nodes_inside(cfg.nodes[t_].owner.body)
                               and I in cfg.nodes_inside(cfg.nodes[t_].owner.body))]
            rep.decide(not guards, "G8.set_epoch", fi, "unconditional",
                       "guarded only by hasattr(main_sampler, 'set_epoch')",
                       "additionally guarded by " + ", ".join(
                           f"'{ast.unparse(cfg.nodes[t_].ast)}' (line {R.line(t_)})" for t_, _ in guards),
                       line=R.line(n), clause=clause)



def chunked_main_loop(rep: Report, R, clause: str):
    """The main sampler is not walked by a per-index 'for' but consumed in chunks from 'it = iter(self.main_sampler)'.  The
    counter / flag / budget rules are written for the per-index loop and are not decided for this construction; what stays
    decidable is the announcement of the epoch before the iterator is taken."""
    fi = R.fi
    rep.rule("G8.main-loop-form", "the rules on counters, flags, budget test and epoch end read them off the per-index loop "
             "'for i in self.main_sampler'; a loop that takes the indices in chunks from one iterator per epoch is another "
             "construction, for which only 'set_epoch before the iterator is taken' is decided")
    rep.unk("G8.main-loop-form", fi, "chunked-main-loop", "main indices are taken in chunks from iter(self.main_sampler): "
            "per-index rules not decided", line=R.line(R.chunk_source_node), clause=clause)
    E = R.counter_from("start_epoch")
    if E:
        set_epoch_rule(rep, R, E, clause=clause)


def run(prog: Program, rep: Report, tier: str):
    R = Roles(prog, "_training_loop")
    fa, cfg, fi = R.fa, R.fa.cfg, R.fi
    rep.analysed_add("functions", f"{FILE}:{fi.qualname}")
    rep.trusted += ["the main sampler's iteration yields len(sampler) indices (domain of the property)",
                    "constructor asserts: 0 < batch_size <= len(main_sampler), budgets non-negative ints, exactly one "
                    "budget kind"]
    rep.not_decided += ["arithmetic of samples_per_epoch for every (N, B, drop_last, drop_last_batch_size) beyond the "
                        "shape of its formula; 'only an epoch's last batch may be short' as a statement about values",
                        "termination for every budget (argument: B <= N implies N//B*B >= B > 0, so every epoch has at "
                        "least one update; counters strictly increase; written here, not machine-checked)"]
    if R.main_iter is None and R.chunk_source_node is not None:
        chunked_main_loop(rep, R, "C04.1")
        batch_sampler(prog, rep)
        names.check(prog, rep, [FILE], clause="C04.G1", floor=10)
        return
    rep.require(R.main_iter is not None, "anchor-missing: loop over self.main_sampler in _training_loop")
    # ---- 0. progress is local to one iteration of the sampler ---------------------------------------------------------
    rep.rule("G8.iteration-state-local", "_training_loop keeps its progress in locals: inside its loops it stores nothing on self "
             "(the only attribute stores - shrinking batch_size / drop_last_batch_size to the sampler length - lie before the "
             "first loop).  Progress kept on the sampler object survives an abandoned iteration (a generator closed at a "
             "yield never reaches code that would rewind it), so the next iteration would start from the abandoned one's "
             "counters while the main sampler starts over")
    loop_nodes = set()
    for n_, nd_ in cfg.nodes.items():
        if nd_.kind == "next" or (nd_.kind == "test" and isinstance(nd_.owner, ast.While)):
            loop_nodes |= cfg.nodes_inside(nd_.owner.body)
    leaks = sorted({(var, R.line(n_)) for n_, var, val in fa.stores(f"{fa.self_name}.") if n_ in loop_nodes})
    calls_in_loops = [(n_, c_) for n_, c_ in fa.calls() if n_ in loop_nodes and isinstance(c_.func, ast.Name)
                      and c_.func.id == "setattr" and c_.args and isinstance(c_.args[0], ast.Name) and c_.args[0].id == fa.self_name]
    rep.decide(not leaks and not calls_in_loops, "G8.iteration-state-local", fi, "no-self-store-in-loops",
               "no attribute of the sampler is written inside the loops",
               "; ".join(f"{v} is written at line {ln}" for v, ln in leaks[:6]) + ": iteration progress lives on the sampler "
               "object and leaks into the next iteration when this one is abandoned", line=leaks[0][1] if leaks else fi.node.lineno,
               clause="C04.2")
    E, U, S = R.counter_from("start_epoch"), R.counter_from("start_update"), R.counter_from("start_sample")
    if (leaks or calls_in_loops) and not (E and U and S):
        return  # the counters are not locals: the remaining rules have no subject (reported above)
    rep.require(E and U and S, "anchor-missing: epoch/update/sample counters initialised from self.start_*")
    N, I = R.main_next, R.main_iter
    body = R.body_entry(N)

    set_epoch_rule(rep, R, E, clause="C04.1")

    # ---- update block & counters -----------------------------------------------------------------------------
    rep.rule("G8.counters", "the global sample counter and the in-epoch / in-update counters are incremented by exactly "
             "1 exactly once per main index, before that index is yielded; epoch / update / sample counters only ever "
             "grow; the in-update counter is reset only inside the update block, the in-epoch counter only at the start "
             "of an epoch")
    incU = [n for n, c in R.increments(U)]
    rep.require(incU, "anchor-missing: increment of the update counter")
    t2 = R.nearest_test(incU[0])
    rep.require(t2 is not None, "anchor-missing: test guarding the update block")
    T2, T2lab = t2
    upd_cond = R.term_at(T2) if T2lab else negate(R.term_at(T2))
    upd_entry = cfg.out_edge(T2, T2lab)
    # local counters from the update condition
    local = {}  # var -> bound term
    for a in eq_atoms(upd_cond):
        pr = split_eq(a)
        if pr is None:
            continue
        for x, y in (pr, pr[::-1]):
            if x[0] == "var" and "." not in x[1] and R.increments(x[1]):
                local[x[1]] = y
    SU = next((v for v, b in local.items() if _attr_of(b) == "batch_size"), None)
    SE = next((v for v, b in local.items() if v != SU), None)
    SPE = local.get(SE)
    rep.decide(SU is not None and SE is not None, "G8.counters", fi, "update-condition-shape",
               f"update condition '{show(upd_cond)}' compares in-update counter '{SU}' with batch_size and in-epoch "
               f"counter '{SE}' with the epoch length", None, line=R.line(T2), clause="C04.3") if (SU and SE) else \
        rep.unk("G8.counters", fi, "update-condition-shape",
                f"update condition '{show(upd_cond)}' not of the form (in_update == batch_size or in_epoch == "
                f"samples_per_epoch)", line=R.line(T2), clause="C04.3")

    def in_main_body(n):
        return n in R.loop_body_nodes(N)

    for v, role in ((S, "global sample"), (SU, "in-update"), (SE, "in-epoch")):
        if v is None:
            continue
        incs = [(n, c) for n, c in R.increments(v) if in_main_body(n)]
        nodes = {n for n, _ in incs}
        before = all(R.within_iteration(N, body, y, nodes) for y in R.main_yields) and bool(R.main_yields)
        once = not any(R.same_iteration_path(N, a, b) for a in nodes for b in nodes)
        by_one = bool(incs) and all(c == 1 for _, c in incs)
        rep.decide(before and once and by_one, "G8.counters", fi, f"increment:{role}",
                   f"'{v}' += 1 exactly once per main index, before the index is yielded",
                   f"'{v}': " + "; ".join(x for x in (
                       None if incs else "never incremented in the per-index loop",
                       None if by_one else "incremented by an amount other than 1",
                       None if before else "an index can be yielded before the increment",
                       None if once else "incremented twice for one index") if x),
                   line=R.line(incs[0][0]) if incs else fi.node.lineno, clause="C04.2")
    for v, role in ((E, "epoch"), (U, "update"), (S, "sample")):
        bad = []
        inc_nodes = {n for n, c in R.increments(v) if c is not None and c > 0}
        for n, val, st in R.defs_of(v):
            if n in inc_nodes:
                continue
            if val is not None and fa.sym.term(val, n) == ("self", f"start_{role}"):
                continue
            bad.append(n)
        rep.decide(not bad, "G8.counters", fi, f"monotone:{role}", f"'{v}' starts at self.start_{role} and only grows",
                   f"'{v}' is re-assigned / decreased at line(s) {', '.join(str(R.line(n)) for n in bad)}",
                   line=R.line(bad[0]) if bad else fi.node.lineno, clause="C04.2")
    if SU:
        resets = [n for n, val, st in R.defs_of(SU) if n not in {x for x, _ in R.increments(SU)}]
        in_loop = [n for n in resets if in_main_body(n)]
        ok = all((T2, T2lab) in cfg.control_predicates(n) for n in in_loop) and bool(in_loop) and all(
            R.within_iteration(N, upd_entry, N, {n}) or True for n in in_loop)
        every_update = bool(in_loop) and R.within_iteration(N, upd_entry, N, set(in_loop))
        rep.decide(ok and every_update, "G8.counters", fi, "reset:in-update",
                   f"'{SU}' is reset inside the update block only, after every update",
                   f"'{SU}' is reset outside the update block or not after every update",
                   line=R.line(in_loop[0]) if in_loop else R.line(T2), clause="C04.2")
    if SE:
        resets = [n for n, val, st in R.defs_of(SE) if n not in {x for x, _ in R.increments(SE)}]
        outside = [n for n in resets if not in_main_body(n)]
        ok = not [n for n in resets if in_main_body(n)] and bool(outside) and cfg.must_pass(
            set(outside), src=cfg.entry, dst=I) and not cfg.reachable(N, I, avoid=set(outside))
        rep.decide(ok, "G8.counters", fi, "reset:in-epoch", f"'{SE}' is reset exactly at the start of every epoch",
                   f"'{SE}' is reset inside the per-index loop or not before every epoch",
                   line=R.line(resets[0]) if resets else R.line(I), clause="C04.2")

    # ---- 3. batch flag == update condition ----------------------------------------------------------------------
    rep.rule("G9.flag-vs-update", "every main index is yielded exactly once; the condition under which it is flagged as "
             "closing a batch is the condition that opens the update block (same normal form over the same variable "
             "versions), so batches and updates coincide")
    ys = set(R.main_yields)
    once = bool(ys) and cfg.must_pass(ys, src=body, dst=T2) and not any(
        R.same_iteration_path(N, a, b) for a in ys for b in ys)
    rep.decide(once, "G9.flag-vs-update", fi, "yield-once", "each main index is yielded exactly once before the update "
               "test", "a main index can be skipped or yielded twice", line=R.line(min(ys)) if ys else 0,
               clause="C04.3")
    for y in sorted(ys):
        yv = yields_at(fa, y)[0].value
        flag = fa.sym.term(yv.elts[0], y)
        cond = None
        if flag[0] == "const" and isinstance(flag[1], bool):
            nt = R.nearest_test(y)
            if nt is not None:
                c = R.term_at(nt[0]) if nt[1] else negate(R.term_at(nt[0]))
                cond = c if flag[1] else negate(c)
        else:
            cond = flag
        if cond is None:
            rep.unk("G9.flag-vs-update", fi, f"flag:{ast.unparse(yv)}", "flag condition not recognised", line=R.line(y),
                    clause="C04.3")
            continue
        same = cond == upd_cond
        if not same and SU:
            # the in-update counter is reset to 0 in the update block and grows by one per index, so it stays within 1..B when
            # the update fires at 'counter == B' (or 'counter % B == 0'): the two spellings are the same test for it
            def _mod_as_eq(t_):
                if isinstance(t_, tuple) and t_ and t_[0] == "eq" and len(t_) == 2:
                    pl_ = term_to_poly(t_[1])
                    if len(pl_.terms) == 1:
                        (k_, v_), = pl_.terms.items()
                        if len(k_) == 1 and k_[0][1] == 1 and k_[0][0][:2] == ("binop", "%") and k_[0][0][2][0] == "var" \
                                and k_[0][0][2][1] == SU:
                            return ("eq", poly_term(term_to_poly(k_[0][0][2]) - term_to_poly(k_[0][0][3])))
                    return t_
                if isinstance(t_, tuple) and t_ and t_[0] in ("or", "and"):
                    parts_ = tuple(sorted((_mod_as_eq(x_) for x_ in t_[1]), key=repr))
                    return (t_[0], parts_)
                if isinstance(t_, tuple) and t_ and t_[0] == "not":
                    return ("not", _mod_as_eq(t_[1]))
                return t_
            same = _mod_as_eq(cond) == _mod_as_eq(upd_cond)
        rep.decide(same, "G9.flag-vs-update", fi, f"flag:{' '.join(ast.unparse(yv).split())}",
                   "flag condition equals the update condition",
                   f"flag condition {show(cond)} differs from the update condition {show(upd_cond)}",
                   line=R.line(y), clause="C04.3")

    # ---- 4. budget test ---------------------------------------------------------------------------------------------
    rep.rule("G8.budget", "the stopping test sits inside the update block after the counter increments and after the "
             "interleaved passes, on every path from the update to the next main index; each budget is compared with "
             "the counter of its own unit (epochs=epoch, updates=update with == or >=; samples with >=)")
    rets = [n for n, nd in cfg.nodes.items() if nd.kind == "stmt" and isinstance(nd.ast, ast.Return) and in_main_body(n)]
    # 'while not finished: ... finished = True; break' - the run also ends where the flag of the enclosing loop is raised
    stop_flags = set()
    for t_, nd_ in cfg.nodes.items():
        if nd_.kind == "test" and isinstance(nd_.owner, ast.While) and I in cfg.nodes_inside(nd_.owner.body):
            tt = R.term_at(t_)
            if tt[0] == "not" and tt[1][0] == "var" and "." not in tt[1][1]:
                stop_flags.add(tt[1][1])
    flag_stops = [n for n, var, val in fa.stores() if var in stop_flags and val is not None and in_main_body(n)
                  and fa.sym.term(val, n) == ("const", True)]
    rets += flag_stops
    rep.require(rets, "anchor-missing: return inside the main loop of _training_loop")
    nearest = {r: R.nearest_test(r) for r in rets}
    rep.require(any(v is not None for v in nearest.values()), "anchor-missing: budget test")
    outer = set(cfg.control_predicates(upd_entry)) | {(T2, T2lab)}
    Bns = []
    for r in rets:
        gs = [(t_, lab) for t_, lab in cfg.control_predicates(r)
              if cfg.nodes[t_].kind == "test" and (t_, lab) not in outer and in_main_body(t_)]
        if gs:
            Bns.append(gs[-1][0])
    rep.require(Bns, "anchor-missing: budget test")
    Bn = min(Bns, key=lambda n: R.line(n))
    _budget_function(rep, R, fa, cfg, fi, upd_entry, set(rets), {"epochs": E, "updates": U, "samples": S}, Bn, N)
    incE = [n for n, c in R.increments(E)]
    in_block = after_inc = after_pass = every = True
    for b_ in sorted(set(Bns)):
        in_block = in_block and (T2, T2lab) in cfg.control_predicates(b_)
        after_inc = after_inc and all(R.within_iteration(N, upd_entry, b_, {n}) for n in incU) and not any(
            R.same_iteration_path(N, b_, n) for n in incU + incE)
        after_pass = after_pass and R.cfg_iter is not None and R.within_iteration(N, upd_entry, b_, {R.cfg_iter})
        # a path from the update to the next main index passes this test unless an earlier budget test already ended the run
        every = every and R.within_iteration(N, upd_entry, N, {b_})
    rep.decide(in_block and after_inc and after_pass and every, "G8.budget", fi, "position",
               "budget test: inside the update block, after the increments, after the interleaved passes, before the "
               "next main index",
               "; ".join(x for x in (None if in_block else "not inside the update block",
                                     None if after_inc else "an update/epoch increment is not before the test",
                                     None if after_pass else "the interleaved passes are not before the test",
                                     None if every else "a path from the update to the next index skips the test")
                         if x), line=R.line(Bn), clause="C04.4")

    # ---- 5. epoch end --------------------------------------------------------------------------------------------------
    rep.rule("G8.epoch-end", "the epoch counter is incremented, and the per-index loop is left (dropping the remainder), "
             "only under 'in-epoch counter == epoch length'; the break comes after the budget test")
    if SE is not None and SPE is not None:
        want = ("eq", None)
        for n in incE:
            nt = R.nearest_test(n)
            c = (R.term_at(nt[0]) if nt[1] else negate(R.term_at(nt[0]))) if nt else None
            pr = split_eq(c[1]) if c and c[0] == "eq" else None
            ok = pr is not None and {_vn(pr[0]), _vn(pr[1])} == {SE, _vn(SPE)} and (T2, T2lab) in \
                cfg.control_predicates(n)
            rep.decide(ok, "G8.epoch-end", fi, "epoch-increment", f"'{E}' += 1 only when '{SE}' reached the epoch "
                       f"length, inside the update block",
                       f"'{E}' is incremented under {show(c) if c else 'no condition'}", line=R.line(n),
                       clause="C04.5")
        brks = breaks_of(R.main_loop)
        for b in brks:
            bn = cfg.stmt_node.get(b)
            if bn is None:
                continue
            if flag_stops and set(cfg.g.predecessors(bn)) <= set(flag_stops):
                continue  # 'finished = True; break': the end of the run, judged by the budget rule
            nt = R.nearest_test(bn)
            c = (R.term_at(nt[0]) if nt[1] else negate(R.term_at(nt[0]))) if nt else None
            pr = split_eq(c[1]) if c and c[0] == "eq" else None
            okc = pr is not None and {_vn(pr[0]), _vn(pr[1])} == {SE, _vn(SPE)}
            okp = all(R.within_iteration(N, body, bn, {b_}) for b_ in set(Bns))
            rep.decide(okc and okp, "G8.epoch-end", fi, "break", "break only at the epoch end, after the budget test",
                       ("break under " + (show(c) if c else "no condition") if not okc else "") +
                       ("; break can be reached without passing the budget test" if not okp else ""),
                       line=R.line(bn), clause="C04.5")
        if R.main_bound is not None:
            same = R.main_bound == SPE
            rep.decide(same, "G8.epoch-end", fi, "break-exists", "the main iterator is cut to the epoch length (islice): the loop ends "
                       "at the epoch end by itself", f"the main iterator is cut to {show(R.main_bound)}, which is not the epoch length "
                       f"{show(SPE)} the update condition uses", clause="C04.5")
        else:
          rep.decide(len(brks) >= 1, "G8.epoch-end", fi, "break-exists", "the per-index loop is left at the epoch end",
                     "no break at the epoch end: with drop_last the short remainder would be yielded as a batch of the "
                     "next update", clause="C04.5", nontrivial=False)
        # epoch length formula
        rep.rule("G6.epoch-length", "epoch length: len(main_sampler) without drop_last; with drop_last "
                 "(len(main_sampler) // b) * b with one and the same b, b being drop_last_batch_size when given, else "
                 "batch_size")
        if SPE[0] == "var":
            for n, val, st in R.defs_of(SPE[1]):
                t = fa.sym.term(val, n) if val is not None else None
                preds = {R.term_at(tn): lab for tn, lab in cfg.control_predicates(n) if cfg.nodes[tn].kind == "test"}
                dl = preds.get(("self", "drop_last"))
                if dl is None and ("not", ("self", "drop_last")) in preds:
                    dl = not preds[("not", ("self", "drop_last"))]
                if t is None or dl is None:
                    rep.unk("G6.epoch-length", fi, f"def@{'drop_last' if dl else 'no_drop_last'}",
                            "definition of the epoch length not under a drop_last test", line=R.line(n),
                            clause="C04.N")
                    continue
                if dl is False:
                    rep.decide(_is_len_main(t), "G6.epoch-length", fi, "no-drop_last", "len(main_sampler)",
                               f"without drop_last the epoch length is {show(t)}, not len(main_sampler)",
                               line=R.line(n), clause="C04.N")
                else:
                    p = term_to_poly(t)
                    ok = None
                    why = f"epoch length {show(t)} not of the form (len // b) * b"
                    if len(p.terms) == 1:
                        (mono, coef), = p.terms.items()
                        atoms = dict(mono)
                        fl = [a for a in atoms if a[0] == "binop" and a[1] == "//"]
                        if coef == 1 and len(fl) == 1 and len(atoms) == 2 and all(v == 1 for v in atoms.values()):
                            b2 = [a for a in atoms if a != fl[0]][0]
                            ok = _is_len_main(fl[0][2]) and fl[0][3] == b2
                            why = "(len(main_sampler) // b) * b" if ok else \
                                f"floor divisor {show(fl[0][3])} and multiplier {show(b2)} differ, or the dividend is " \
                                f"not len(main_sampler)"
                            if ok and b2[0] == "var":
                                # b: drop_last_batch_size when given else batch_size
                                for n2, v2, st2 in R.defs_of(b2[1]):
                                    tb = fa.sym.term(v2, n2) if v2 is not None else None
                                    pr2 = {R.term_at(tn): lab for tn, lab in cfg.control_predicates(n2)
                                           if cfg.nodes[tn].kind == "test"}
                                    given = None
                                    isn = ("is", tuple(sorted((("const", None), ("self", "drop_last_batch_size")), key=repr)))
                                    for k, lab in pr2.items():
                                        if k == ("not", isn):
                                            given = lab
                                        elif k == isn:
                                            given = not lab
                                    a = _attr_of(tb) if tb else None
                                    want_attr = "drop_last_batch_size" if given else "batch_size"
                                    if given is None or a != want_attr:
                                        ok = False if a is not None and given is not None else None
                                        why = f"b is {show(tb) if tb else '?'} where {want_attr} is expected"
                    rep.decide(ok, "G6.epoch-length", fi, "drop_last", why, why, line=R.line(n), clause="C04.N")

    # ---- 6. batch sampler -------------------------------------------------------------------------------------------------
    batch_sampler(prog, rep)
    names.check(prog, rep, [FILE], clause="C04.G1", floor=10)


def _budget_function(rep: Report, R, fa, cfg, fi, upd_entry: int, stops: Set[int], unit_counter, Bn: int, N: int):
    """The stop condition as a boolean function: OR over the paths from the start of the update block to a return (or to raising
    the stop flag) of their branch conditions.  Under each single budget kind (the constructor admits exactly one) it must equal
    that budget's comparison with the counter of its own unit."""
    from .sampler_common import GiveUp, formula_atoms, formula_eval, path_condition
    body = R.loop_body_nodes(N)
    try:
        D, n_paths = path_condition(fa, upd_entry, stops, body, barrier={N})
    except GiveUp as e:
        rep.unk("G8.budget", fi, "stop-condition", f"not decided: {e}", line=R.line(Bn), clause="C04.4")
        return
    atoms = formula_atoms(D)
    NONE = ("const", None)

    def classify(t: Term):
        """-> (role, unit, ok, detail); roles: none / cmp / other"""
        if t[0] == "is":
            a, b2 = t[1]
            for x, y in ((a, b2), (b2, a)):
                if x == NONE and y[0] == "self" and y[1] in unit_counter:
                    return "none", y[1], True, ""
        if t[0] in ("eq", "lt"):
            p = term_to_poly(t[1])
            battr = [a for a in p.atoms() if a[0] == "self" and a[1] in unit_counter]
            cvars = [a for a in p.atoms() if a[0] == "var"]
            if len(battr) == 1:
                unit = battr[0][1]
                want = unit_counter[unit]
                ok_pair = len(cvars) == 1 and cvars[0][1] == want and len(p.atoms()) == 2 and p.const_value() is None \
                    and () not in p.terms
                if not ok_pair:
                    return "cmp", unit, False, (f"self.{unit} is compared with {', '.join(show(a) for a in cvars) or '?'} instead of "
                                                f"the {unit[:-1]} counter '{want}'")
                cb, cc = p.coeff_of(battr[0]).const_value(), p.coeff_of(cvars[0]).const_value()
                # the atom as a fact about the ordering of (counter, budget): true exactly in the listed orderings
                if t[0] == "eq":
                    return "cmp", unit, cb is not None and cc is not None and cb == -cc, "comparison of unrecognised scale", ("=",)
                if cb == -1 and cc == 1:
                    return "cmp", unit, True, "", ("<",)          # counter - budget < 0
                if cb == 1 and cc == -1:
                    return "cmp", unit, True, "", (">",)          # budget - counter < 0
                return "cmp", unit, False, "comparison of unrecognised scale"
        return "other", None, True, ""
    roles = {t: classify(t) for t in atoms}
    rows_cache = {}  # (comparison atoms carry a fifth field: the orderings of (counter, budget) in which they hold)
    import itertools
    if len(atoms) > 14:
        rep.unk("G8.budget", fi, "stop-condition", f"{len(atoms)} atomic tests: not decided", line=R.line(Bn), clause="C04.4")
        return
    for unit, want in unit_counter.items():
        # exactly this budget is configured
        fixed = {}
        for t, rl_ in roles.items():
            role, u = rl_[0], rl_[1]
            if role == "none":
                fixed[t] = (u != unit)
        free = [t for t in atoms if t not in fixed]
        table = {}
        for row in itertools.product((False, True), repeat=len(free)):
            val = dict(fixed)
            val.update(zip(free, row))
            table[row] = formula_eval(D, val)
        depends = [t for i, t in enumerate(free)
                   if any(table[row] != table[row[:i] + (not row[i],) + row[i + 1:]] for row in table)]
        mine = [t for t in depends if roles[t][1] == unit and roles[t][0] != "none"]
        foreign = [t for t in depends if t not in mine]
        if not depends:
            always = all(table.values()) if table else False
            rep.bad("G8.budget", fi, f"unit:{unit}", (f"with only the {unit} budget set the stream stops after the first update whatever "
                                                      f"the counters say" if always else
                                                      f"the stopping test has no disjunct for the {unit} budget: such a stream never ends"),
                    line=R.line(Bn), clause="C04.4")
            continue
        wrong = [roles[t][3] for t in mine if not roles[t][2]]
        if wrong:
            rep.bad("G8.budget", fi, f"unit:{unit}", wrong[0], line=R.line(Bn), clause="C04.4")
            continue
        bad_foreign = [t for t in foreign if roles[t][0] != "other"]
        if bad_foreign:
            t = bad_foreign[0]
            rep.bad("G8.budget", fi, f"unit:{unit}", f"with only the {unit} budget set the stop still depends on {show(t)[:70]} "
                    f"(the {roles[t][1]} budget, which is None then)", line=R.line(Bn), clause="C04.4")
            continue
        if not foreign and mine and all(len(roles[t]) == 5 for t in mine):
            # the comparisons only see how the counter stands to the budget: the stop condition as a function of that ordering
            stop = {}
            for o in ("<", "=", ">"):
                val = dict(fixed)
                for t in free:
                    val[t] = (o in roles[t][4]) if t in mine else False
                stop[o] = formula_eval(D, val)
            need_gt = unit == "samples"
            ok = (not stop["<"]) and stop["="] and (stop[">"] or not need_gt)
            if stop["<"]:
                why = f"with only the {unit} budget set the stream stops while the {unit[:-1]} counter is still below the budget"
            elif not stop["="] and stop[">"]:
                why = "strict comparison: stops one update late (counter > budget)"
            elif not stop["="]:
                why = (f"with only the {unit} budget set the stream does not stop when the {unit[:-1]} counter reaches it "
                       f"(the comparison is negated or combined wrongly)")
            else:
                why = "samples budget compared with == : a budget that is not hit exactly never stops the stream"
            rep.decide(ok, "G8.budget", fi, f"unit:{unit}",
                       f"self.{unit} is compared with the {unit[:-1]} counter '{want}' (stop at {'>=' if stop['>'] else '=='})",
                       why, line=R.line(Bn), clause="C04.4")
            continue
        if foreign or len(mine) != 1:
            conv = _budget_conversion(R, fa, cfg, unit, foreign, unit_counter)
            if conv is not None:
                rep.bad("G8.budget", fi, f"unit:{unit}", conv, line=R.line(Bn), clause="C04.4")
            else:
                rep.unk("G8.budget", fi, f"unit:{unit}", "with only this budget set the stop depends on tests of unrecognised shape: "
                        + "; ".join(show(t)[:60] for t in (foreign or mine)[:3]), line=R.line(Bn), clause="C04.4")
            continue
        t = mine[0]
        i = free.index(t)
        role = roles[t][0]
        # stop <=> comparison: for 'eq' atoms stop iff atom; for 'counter < budget' atoms stop iff not atom
        want_when_true = role != "cmp>=neg"
        ok = all(table[row] == (row[i] == want_when_true) for row in table)
        rep.decide(ok, "G8.budget", fi, f"unit:{unit}",
                   f"self.{unit} is compared with the {unit[:-1]} counter '{want}' ({'==' if t[0] == 'eq' else '>='})",
                   f"with only the {unit} budget set the stream does not stop exactly when the {unit[:-1]} counter reaches it "
                   f"(the comparison is negated or combined wrongly)", line=R.line(Bn), clause="C04.4")


def _budget_conversion(R, fa, cfg, unit: str, atoms, unit_counter) -> Optional[str]:
    """A budget converted into another unit before the loop ('end_sample = self.updates * self.batch_size', 'end_update =
    ceil(self.samples / self.batch_size)') and compared with that unit's counter.  Between updates and samples the batch size
    converts exactly only when every update is full - an epoch's last update is short unless drop_last cuts the epoch to whole
    batches - so such a conversion outside a drop_last branch moves the stopping point.  (Whole epochs convert exactly through the
    per-epoch counts.)"""
    ctr_unit = {v: k for k, v in unit_counter.items()}
    for t in atoms:
        if t[0] not in ("lt", "eq"):
            continue
        p = term_to_poly(t[1])
        vs = [a for a in p.atoms() if a[0] == "var"]
        if len(vs) != 2:
            continue
        other = [a for a in vs if a[1] not in ctr_unit]
        ctr = [a for a in vs if a[1] in ctr_unit]
        if len(other) != 1 or len(ctr) != 1:
            continue
        target_unit = ctr_unit[ctr[0][1]]
        if target_unit == unit or unit == "epochs":
            continue
        for d in other[0][2]:
            v = cfg.def_value(d, other[0][1]) if cfg.nodes[d].kind != "entry" else None
            if v is None:
                continue
            tv = fa.sym.term(v, d)
            lfs = leaves(tv)
            attrs = {a[1] if a[0] == "self" else (a[1][5:] if a[0] == "var" and a[1].startswith("self.") else None) for a in lfs}
            if unit in attrs and "batch_size" in attrs:
                conds = list(fa.conds_at(d))
                under_drop_last = any(c == ("self", "drop_last") or (c[0] == "and" and ("self", "drop_last") in c[1]) for c in conds)
                if not under_drop_last:
                    return (f"the {unit} budget is converted into {target_unit} through the batch size ({show(tv)[:60]}, line "
                            f"{R.line(d)}) and compared with the {target_unit[:-1]} counter: without drop_last an epoch's last update "
                            f"is short, so the stream does not end right after the update at which the budget is reached")
    return None


def _vn(t: Term) -> Optional[str]:
    return t[1] if t and t[0] == "var" else None


def batch_sampler(prog: Program, rep: Report):
    rep.rule("G8.batch-sampler", "_InterleavedBatchSampler.__iter__ appends every index, emits the collected list exactly "
             "at flagged indices, continues with a fresh list (the emitted one is not mutated), and asserts an empty "
             "remainder at the end of the stream")
    fi = prog.method("_InterleavedBatchSampler", "__iter__", own=True)
    fa = fa_of(prog, fi)
    cfg = fa.cfg
    rep.analysed_add("functions", f"{FILE}:{fi.qualname}")
    loop_n = None
    for n, nd in cfg.nodes.items():
        if nd.kind == "iter" and fa.sym.term(nd.owner.iter, n) == ("self", "sampler"):
            loop_n = n
    rep.require(loop_n is not None, "anchor-missing: loop over self.sampler in _InterleavedBatchSampler.__iter__")
    loop = cfg.nodes[loop_n].owner
    N = cfg.out_edge(loop_n, None)
    body = cfg.out_edge(N, True)
    tgt = loop.target
    ok_t = isinstance(tgt, ast.Tuple) and len(tgt.elts) == 2 and all(isinstance(e, ast.Name) for e in tgt.elts)
    if not ok_t:
        rep.unk("G8.batch-sampler", fi, "loop-target", "loop target is not (flag, index)", clause="C04.6")
        return
    flagv, idxv = tgt.elts[0].id, tgt.elts[1].id
    ys = [n for n in cfg.nodes if yields_at(fa, n)]
    rep.require(ys, "anchor-missing: yield in _InterleavedBatchSampler.__iter__")
    y = ys[0]
    yv = yields_at(fa, y)[0].value
    lst = yv.id if isinstance(yv, ast.Name) else None
    if lst is None or len(ys) != 1:
        rep.unk("G8.batch-sampler", fi, "yield-shape", "expected exactly one 'yield <list variable>'", clause="C04.6")
        return
    appends = {n for n, c in fa.calls() if isinstance(c.func, ast.Attribute) and c.func.attr == "append"
               and isinstance(c.func.value, ast.Name) and c.func.value.id == lst and len(c.args) == 1
               and fa.sym.term(c.args[0], n) == ("var", idxv, frozenset({N}))}
    t_nodes = [n for n, nd in cfg.nodes.items() if nd.kind == "test" and not isinstance(nd.owner, ast.Assert)]
    app_ok = bool(appends) and not cfg.reachable(body, N, avoid=appends) and not cfg.reachable(body, y, avoid=appends | {N}) \
        if body not in appends else True
    app_once = not any(cfg.reachable(a, b, avoid={N}) for a in appends for b in appends)
    rep.decide(app_ok and app_once, "G8.batch-sampler", fi, "append", "every index is appended exactly once, before a "
               "possible emission", "an index can be dropped, appended twice, or appended after the emission",
               line=fa.line(y), clause="C04.6")
    nt = None
    for t_, lab in cfg.control_predicates(y):
        if cfg.nodes[t_].kind == "test":
            nt = (t_, lab)
    cond = None
    if nt:
        cond = fa.sym.term(cfg.nodes[nt[0]].ast, nt[0])
        if not nt[1]:
            cond = negate(cond)
    rep.decide(cond == ("var", flagv, frozenset({N})), "G8.batch-sampler", fi, "emit-iff-flag",
               "a batch is emitted exactly when the flag of the current index is set",
               f"emission condition is {show(cond) if cond else 'unconditional'}, not the flag of the current index",
               line=fa.line(y), clause="C04.6")
    # and on the flag-true edge the yield is unavoidable
    if nt:
        tgt_true = cfg.out_edge(nt[0], nt[1])
        rep.decide(tgt_true == y or not cfg.reachable(tgt_true, N, avoid={y}), "G8.batch-sampler", fi, "emit-always",
                   "every flagged index emits", "a flagged index can pass without emission", line=fa.line(y),
                   clause="C04.6")
    fresh = {n for n in cfg.nodes for v, t_, val in cfg.defs_at(n)
             if v == lst and val is not None and isinstance(val, (ast.List, ast.ListComp)) and not getattr(val, "elts", [1])}
    fresh |= {n for n in cfg.nodes for v, t_, val in cfg.defs_at(n)
              if v == lst and isinstance(val, ast.Call) and isinstance(val.func, ast.Name) and val.func.id == "list"
              and not val.args}
    # an empty slice of a list is a new empty list as well: x = x[:0] / x[0:0] / x[len(x):]
    def _empty_slice(val):
        if not (isinstance(val, ast.Subscript) and isinstance(val.slice, ast.Slice) and isinstance(val.value, ast.Name)):
            return False
        sl = val.slice
        zero = lambda e: isinstance(e, ast.Constant) and e.value == 0
        return sl.step is None and zero(sl.upper) and (sl.lower is None or zero(sl.lower))
    fresh |= {n for n in cfg.nodes for v, t_, val in cfg.defs_at(n) if v == lst and val is not None and _empty_slice(val)}
    fresh_in = {n for n in fresh if cfg.reachable(y, n, avoid={N})}
    mut = [n for n, c in fa.calls() if isinstance(c.func, ast.Attribute) and isinstance(c.func.value, ast.Name)
           and c.func.value.id == lst and c.func.attr in ("clear", "pop", "remove", "__delitem__", "sort", "reverse")]
    mut += [n for n in cfg.nodes for v, t_, val in cfg.defs_at(n) if v == f"{lst}[]"]
    ok = bool(fresh_in) and not cfg.reachable(y, N, avoid=fresh_in) and not mut
    rep.decide(ok, "G8.batch-sampler", fi, "fresh-list", "after an emission collection continues in a new list object",
               "after an emission the same list object is reused or mutated in place (the consumer's batch changes "
               "under it)" if mut or not fresh_in else "a path from the emission to the next index keeps the old list",
               line=fa.line(y), clause="C04.6")
    def _says_empty(t, n) -> bool:
        x = fa.sym.term(ast.Name(lst, ast.Load()), n)
        ln = ("call", ("global", "len"), (x,), ())
        p = term_to_poly(ln)
        return t in (("eq", ln), ("not", x), ("not", ln), ("le", ln)) or (
            t[0] == "lt" and term_to_poly(t[1]) == p - Poly.const(1)) or (t[0] == "eqv" and x in t[1] and any(
                y in (("list", ()), ("tuple", ())) for y in t[1]))

    asserts = [n for n, nd in cfg.nodes.items() if nd.kind == "test" and isinstance(nd.owner, ast.Assert)
               and _says_empty(fa.sym.term(nd.ast, n), n)]
    after = cfg.out_edge(N, False)
    ok = bool(asserts) and after is not None and (after in asserts or not cfg.reachable(after, cfg.exit, avoid=set(asserts)))
    rep.decide(ok, "G8.batch-sampler", fi, "assert-empty", "end of stream asserts an empty remainder",
               "the end of the stream does not assert that no partial batch is left", line=fi.node.lineno,
               clause="C04.6")
