"""C19 - the in-memory cache is transparent for every access history (DESIGN §4 C19)."""
from __future__ import annotations

import ast
from typing import List, Optional

from ..core import Report
from ..fa import fa_of
from ..model import Program
from ..rules import names
from ..sym import Term, contains, leaves, negate, show, subterms

FILES = ["kappadata/caching/shared_dict_dataset.py", "kappadata/caching/cached_dataset.py"]


def run(prog: Program, rep: Report, tier: str):
    rep.trusted += ["multiprocessing.Manager().dict() behaves like a dict whose entries are pickled copies",
                    "the wrapped dataset's __getitem__ is a function of the index (the property's domain)"]
    rep.not_decided += ["sharing between processes, pickling of payloads, redundant loads under concurrency",
                        "observational equality as values"]
    base = prog.cls("CachedDataset")
    impls = [C for C in prog.subclasses(base, include_self=False) if "_cached_getitem" in C.methods]
    rep.floor("cache implementations (_cached_getitem)", len(impls), 1)
    rep.rule("G8.lookup-or-load", "_cached_getitem(idx): the wrapped dataset is read (self.dataset[k]) only on paths on which "
             "'k not in <cache>' holds for the same key k = the index parameter itself; on those paths the loaded value is "
             "stored under that key before the function returns, and is the value returned; on all other paths the value "
             "returned is <cache>[k] for the same key; nothing else is returned")
    rep.rule("G8.dispose-clears", "dispose() empties the cache container in place (<cache>.clear()) on every path and never re-binds the attribute: the container is shared by reference / proxy with every reader")
    rep.rule("G8.transform-after-cache", "CachedDataset.__getitem__(idx) obtains the sample from self._cached_getitem(idx) with "
             "its own index, applies self.transform to it exactly when a transform is set, returns the result, and stores "
             "nothing (the transformed value never enters the cache); __len__ is len(self.dataset)")
    rep.rule("G8.cache-per-instance", "the cache container is created in __init__ for each instance (not a class attribute or a "
             "default argument shared between datasets)")
    for C in impls:
        fi = C.methods["_cached_getitem"]
        fa = fa_of(prog, fi)
        cfg = fa.cfg
        rep.analysed_add("functions", f"{fi.module.relpath}:{fi.qualname}")
        K = ("param", fi.params()[1]) if len(fi.params()) > 1 else None
        rets = fa.returns()
        # the cache container: the self attribute tested with 'in'
        cache_attr = None
        for n, nd in cfg.nodes.items():
            if nd.kind == "test":
                for x in subterms(fa.sym.term(nd.ast, n)):
                    if x[0] == "in" and x[2][0] == "self":
                        cache_attr = x[2][1]
        if cache_attr is None and K is not None:
            # no membership test at all: the container is whatever self attribute is written with the key
            for n, nd in cfg.nodes.items():
                if nd.kind == "stmt" and isinstance(nd.ast, ast.Assign):
                    for t_ in nd.ast.targets:
                        if isinstance(t_, ast.Subscript) and fa.sym.term(t_.value, n)[0] == "self":
                            cache_attr = fa.sym.term(t_.value, n)[1]
        if cache_attr is None or K is None:
            rep.unk("G8.lookup-or-load", fi, "shape", "no cache container found", clause="C19.1")
            continue
        cache = ("self", cache_attr)
        miss = ("not", ("in", K, cache))
        hit = ("in", K, cache)
        # loads
        loads = []
        for n in sorted(cfg.nodes):
            for x in cfg.walk_node(n):
                if isinstance(x, ast.Subscript) and isinstance(x.ctx, ast.Load):
                    t = fa.sym.term(x.value, n)
                    if t == ("self", "dataset"):
                        loads.append((n, x))
        rep.decide(bool(loads), "G8.lookup-or-load", fi, "load-exists", "the wrapped dataset is read on the miss path",
                   "the wrapped dataset is never read", clause="C19.1", nontrivial=False)
        def conj(cs):
            out = []
            for c_ in cs:
                out += list(c_[1]) if c_[0] == "and" else [c_]
            return out

        for n, x in loads:
            key = fa.sym.term(x.slice, n)
            conds = conj(fa.conds_at(n))
            ok = key == K and miss in conds
            rep.decide(ok, "G8.lookup-or-load", fi, "load-under-miss", "self.dataset[idx] only under 'idx not in cache'",
                       (f"the wrapped dataset is read with key {show(key)} instead of the index parameter" if key != K else
                        "the wrapped dataset is read on a path on which the key may already be cached (redundant / "
                        "unconditional load)"), line=x.lineno, clause="C19.1")
            # store before return on every path from the load
            stores = {m for m, nd in cfg.nodes.items() if nd.kind == "stmt" and isinstance(nd.ast, ast.Assign)
                      and any(isinstance(t_, ast.Subscript) and fa.sym.term(t_.value, m) == cache
                              and fa.sym.term(t_.slice, m) == K for t_ in nd.ast.targets)}
            good_store = set()
            for m in stores:
                v = fa.sym.term(cfg.nodes[m].ast.value, m)
                lv = fa.sym.term(x, n)
                if v == lv or (v[0] == "var" and cfg.reaching().get(m, {}).get(v[1]) == {n}):
                    good_store.add(m)
            ok = bool(good_store) and (n in good_store or not cfg.reachable(n, cfg.exit, avoid=good_store))
            rep.decide(ok, "G8.lookup-or-load", fi, "store-loaded", "the loaded value is stored under the same key before "
                       "returning", "the loaded value is not stored under the index key on every path to the return (it is "
                       "loaded again on the next access, or stored under another key / another value is stored)",
                       line=x.lineno, clause="C19.1")
        for n, t in rets:
            conds = conj(fa.conds_at(n))
            ok = None
            if t is None:
                ok = False
                why = "returns nothing"
            else:
                # resolve the returned variable to its reaching definitions
                srcs = []
                if t[0] == "var":
                    for d in t[2]:
                        val = cfg.def_value(d, t[1])
                        srcs.append((d, fa.sym.term(val, d) if val is not None else None))
                else:
                    srcs.append((n, t))
                ok = True
                why = "returns the loaded value on a miss and cache[idx] on a hit"
                for d, s in srcs:
                    dc = conj(fa.conds_at(d)) + conds
                    got = s is not None and s[0] == "call" and s[1] == ("attr", cache, "get") and s[2] and s[2][0] == K and (
                        len(s[2]) == 1 or s[2][1] == ("const", None))
                    if got:
                        # cache.get(idx): the entry on a hit, None on a miss - fine when the path is a hit: 'idx in cache', or
                        # 'value is not None or idx in cache' (a stored None is still a hit)
                        is_hit = hit in dc or any(c_[0] == "or" and hit in c_[1] and all(
                            d_ == hit or (d_[0] == "not" and d_[1][0] == "is") for d_ in c_[1]) for c_ in dc)
                        if not is_hit:
                            ok, why = False, ("the value of cache.get(idx) is returned on a path that is not known to be a hit: a "
                                              "missing key yields None instead of the sample" if not any(
                                                  c_[0] == "not" and c_[1][0] == "is" for c_ in dc) else
                                              "'cache.get(idx) is not None' is taken for a hit: a cached None counts as a miss and "
                                              "is loaded again on every access")
                        continue
                    if s == ("sub", ("self", "dataset"), K):
                        if miss not in dc:
                            ok, why = False, "a value read from the wrapped dataset is returned on a path that is not a miss"
                    elif s == ("sub", cache, K):
                        # reading the cache entry is fine on a hit, and on a miss after the store
                        pass
                    else:
                        ok, why = False, f"returns {show(s) if s else '?'}: neither the loaded sample nor cache[idx]"
                        if s is not None and s[0] == "sub" and s[1] == cache:
                            why = f"returns the cache entry of key {show(s[2])}, not of the requested index"
            rep.decide(ok, "G8.lookup-or-load", fi, "returned-value", why, why, line=fa.line(n), clause="C19.1")
        # mutation of the index before use
        redefs = [n for n, var, val in fa.stores() if var == K[1]]
        rep.decide(not redefs, "G8.lookup-or-load", fi, "key-unmodified", "the index parameter is used as the key unmodified",
                   "the index parameter is re-assigned before it is used as key", clause="C19.1", nontrivial=False)
        # dispose
        d = C.methods.get("dispose")
        if d is None:
            rep.bad("G8.dispose-clears", C, "dispose", "no dispose(): the cache can never be cleared", clause="C19.2")
        else:
            da = fa_of(prog, d)
            rep.analysed_add("functions", f"{d.module.relpath}:{d.qualname}")
            clears = {n for n, c in da.calls_named("clear") if da.sym.term(c.func.value, n) == cache}
            rebinds = [n for n, var, val in da.stores() if var == f"{da.self_name}.{cache_attr}"]

            def _same_object(n_, val_):
                # 'd = self.cache; ...; self.cache = d': the attribute is bound to the object it already holds
                if val_ is None:
                    return False
                r_ = da.referent(val_, n_)
                return isinstance(r_, ast.Attribute) and isinstance(r_.value, ast.Name) and r_.value.id == da.self_name \
                    and r_.attr == cache_attr
            rebinds = [n for n in rebinds if not any(_same_object(n, val) for n2, var, val in da.stores()
                                                     if n2 == n and var == f"{da.self_name}.{cache_attr}")]
            if rebinds:
                rep.bad("G8.dispose-clears", d, "rebind", f"dispose() binds self.{cache_attr} to a new container instead of "
                        f"emptying the shared one in place: every other holder of the cache (reader processes that received "
                        f"the proxy earlier) keeps serving the entries from before the clear", line=da.line(rebinds[0]),
                        clause="C19.2")
            # an exit taken only when the container is known to be empty (a conjunct 'len(cache) == 0' / 'not cache' dominates
            # it) skips a no-op: such exits count as cleared
            def _empty_fact(e_, pol_):
                if isinstance(e_, ast.Compare) and len(e_.ops) == 1 and isinstance(e_.ops[0], ast.Eq if pol_ else ast.NotEq):
                    a_, b_ = e_.left, e_.comparators[0]
                    if isinstance(a_, ast.Constant):
                        a_, b_ = b_, a_
                    return isinstance(b_, ast.Constant) and b_.value == 0 and type(b_.value) is int and isinstance(a_, ast.Call) \
                        and getattr(a_.func, "id", "") == "len" and len(a_.args) == 1 and _is_cache(a_.args[0])
                if not pol_:
                    if isinstance(e_, ast.Call) and getattr(e_.func, "id", "") == "len" and len(e_.args) == 1:
                        return _is_cache(e_.args[0])
                    return _is_cache(e_)
                return False

            def _is_cache(x_):
                return isinstance(x_, ast.Attribute) and isinstance(x_.value, ast.Name) and x_.value.id == da.self_name \
                    and x_.attr == cache_attr
            writes_before = {n for n in da.cfg.nodes for x_ in da.cfg.walk_node(n)
                             if isinstance(x_, (ast.Subscript, ast.Call)) and any(_is_cache(y_) for y_ in ast.walk(x_))
                             and (isinstance(x_, ast.Subscript) and isinstance(x_.ctx, (ast.Store, ast.Del)) or
                                  isinstance(x_, ast.Call) and isinstance(x_.func, ast.Attribute) and _is_cache(x_.func.value)
                                  and x_.func.attr not in ("clear", "keys", "values", "items", "get", "copy", "__len__", "__contains__"))}
            noop_exits = set()
            if not writes_before:
                for n in da.cfg.nodes:
                    nd_ = da.cfg.nodes[n]
                    if nd_.kind == "stmt" and isinstance(nd_.ast, ast.Return) and any(
                            _empty_fact(e_, pol_) for e_, pol_, _t, _n in da.cond_parts_at(n)):
                        noop_exits.add(n)
            rep.decide(bool(clears) and da.cfg.must_pass(clears | noop_exits), "G8.dispose-clears", d, "clear",
                       f"self.{cache_attr} is emptied on every path", f"dispose() does not empty self.{cache_attr} on every "
                       f"path", clause="C19.2")
        # per-instance container
        init = C.lookup("__init__")
        ok = None
        if init is not None:
            ia = fa_of(prog, init)
            st = [(n, val) for n, var, val in ia.stores() if var == f"{ia.self_name}.{cache_attr}"]
            ok = bool(st) and all(val is not None and ia.sym.term(val, n)[0] in ("call", "dict") and not any(
                lf[0] == "param" and lf[1] != ia.self_name for lf in leaves(ia.sym.term(val, n))) for n, val in st) \
                and cache_attr not in C.class_attrs
        rep.decide(ok, "G8.cache-per-instance", C, f"container:self.{cache_attr}", "created in __init__ from a fresh call",
                   f"self.{cache_attr} is a class attribute / comes from a constructor argument or default: entries of one "
                   f"cached dataset can be served for another", clause="C19.4", nontrivial=False)
    # ---- other readers of the wrapped dataset (batched access, prefetching ...) -------------------------------------------
    rep.rule("G8.other-loads", "a method of a cache class other than _cached_getitem that reads the wrapped dataset "
             "(self.dataset[k]) does so only where k is tested to be missing.  Tested against the cache itself: fine when the "
             "loaded value is stored under k.  Tested against a local snapshot of the cache's keys taken before a loop over "
             "several indices: the snapshot has to learn k (add / update) on every path from the load to the next index, "
             "otherwise a second occurrence of k in the same batch is loaded again")
    for C in [base] + list(prog.subclasses(base, include_self=False)):
        for name, f in C.methods.items():
            if name in ("_cached_getitem", "__init__"):
                continue
            fa2 = fa_of(prog, f)
            c2 = fa2.cfg
            for n in sorted(c2.nodes):
                for x in c2.walk_node(n):
                    if not (isinstance(x, ast.Subscript) and isinstance(x.ctx, ast.Load)
                            and fa2.sym.term(x.value, n) == ("self", "dataset")):
                        continue
                    rep.analysed_add("functions", f"{f.module.relpath}:{f.qualname}")
                    key = fa2.sym.term(x.slice, n)
                    conds = []
                    for c_ in fa2.conds_at(n):
                        conds += list(c_[1]) if c_[0] == "and" else [c_]
                    tested = [c_[1][2] for c_ in conds if c_[0] == "not" and c_[1][0] == "in" and c_[1][1] == key]
                    # a local that the symbolic layer expanded to its (never mutated) definition is still a local snapshot
                    for e_, pol_, c_, tn_ in fa2.cond_parts_at(n):
                        if isinstance(e_, ast.Compare) and len(e_.ops) == 1 and isinstance(e_.ops[0], (ast.In, ast.NotIn)) and \
                                isinstance(e_.comparators[0], ast.Name) and fa2.sym.term(e_.left, tn_) == key and \
                                (isinstance(e_.ops[0], ast.NotIn) == pol_):
                            nm_ = e_.comparators[0].id
                            defs_ = c2.reaching().get(tn_, {}).get(nm_, set())
                            t_ = ("var", nm_, frozenset(defs_))
                            tested = [t_] + [x_ for x_ in tested if x_[0] == "self"]
                    ok, why = None, (f"{f.qualname} reads the wrapped dataset with key {show(key)[:40]} outside _cached_getitem; "
                                     f"no membership test of that key is recognised: not decided")
                    for cont in tested:
                        if cont[0] == "self":
                            ok, why = True, "read under 'k not in <cache>'"
                            break
                        if cont[0] == "var":
                            snap = cont[1]
                            # the loop over the indices that contains the load
                            loops = [m for m, nd in c2.nodes.items() if nd.kind == "next" and n in c2.nodes_inside(nd.owner.body)]
                            outside = [d for d in cont[2] if not any(d in c2.nodes_inside(c2.nodes[m].owner.body) for m in loops)]
                            if not loops or not outside:
                                ok, why = True, f"read under 'k not in {snap}' (per-index test)"
                                break
                            learns = set()
                            for m, cl in fa2.calls():
                                if isinstance(cl.func, ast.Attribute) and cl.func.attr in ("add", "update", "append", "extend") \
                                        and isinstance(cl.func.value, ast.Name) and cl.func.value.id == snap:
                                    learns.add(m)
                            for m, var, val in fa2.stores():
                                if var == snap and m in c2.nodes_inside(c2.nodes[loops[-1]].owner.body):
                                    learns.add(m)
                            inner = max(loops, key=lambda m_: len([1 for o_ in loops if m_ in c2.nodes_inside(c2.nodes[o_].owner.body)]))
                            stale = c2.reachable(n, inner, avoid=learns)
                            ok = not stale
                            why = (f"'{snap}' (the keys of the cache, taken once before the loop) learns every key that is loaded") if ok \
                                else (f"{f.qualname}: the miss test at line {x.lineno} reads '{snap}', a snapshot of the cache's keys "
                                      f"taken before the loop over the requested indices, and the snapshot does not learn the key "
                                      f"that was just loaded: an index that occurs twice in one request is loaded twice")
                            break
                    rep.decide(ok, "G8.other-loads", f, f"load:{' '.join(ast.unparse(x).split())[:40]}", why, why, line=x.lineno,
                               clause="C19.1")

    # ---- CachedDataset.__getitem__ -----------------------------------------------------------------------------------
    gi = base.methods.get("__getitem__")
    rep.require(gi is not None, "anchor-missing: CachedDataset.__getitem__")
    fa = fa_of(prog, gi)
    cfg = fa.cfg
    rep.analysed_add("functions", f"{gi.module.relpath}:{gi.qualname}")
    I = ("param", gi.params()[1])
    raw = ("call", ("self", "_cached_getitem"), (I,), ())
    raw_attr = ("call", ("attr", ("param", fa.self_name), "_cached_getitem"), (I,), ())
    tf = ("self", "transform")
    has_tf = ("not", ("is", tuple(sorted((("const", None), tf), key=repr))))
    ok = True
    why = "returns transform(_cached_getitem(idx)) when a transform is set, else _cached_getitem(idx)"
    rets = fa.returns()
    tests = [m for m, nd in cfg.nodes.items() if nd.kind == "test" and fa.sym.term(nd.ast, m) == has_tf]

    def is_tf(s_):
        if not (s_ is not None and s_[0] == "call" and s_[1] == tf and len(s_[2]) == 1):
            return False
        a_ = s_[2][0]
        # the cached sample itself, a local holding it, or a copy of it (deepcopy / copy / clone)
        if a_[0] == "call" and a_[2] and ((a_[1][0] == "global" and a_[1][1].rsplit(".", 1)[-1] in ("deepcopy", "copy")) or (
                a_[1][0] == "attr" and a_[1][2] in ("clone", "copy"))):
            a_ = a_[2][0] if a_[1][0] == "global" else a_[1][1]
        return a_ in (raw, raw_attr) or a_[0] == "var"

    # judged on the CFG pruned by each of the two configurations: with a transform set every return must hand back
    # transform(<cached sample>), without one the cached sample itself - whatever the control flow looks like
    isnone = ("is", tuple(sorted((("const", None), tf), key=repr)))

    def sources_of(pfa):
        out = []
        for n, t in pfa.returns():
            if t is not None and t[0] == "var":
                for d in t[2]:
                    val = pfa.cfg.def_value(d, t[1])
                    out.append((n, d, pfa.sym.term(val, d) if val is not None else None))
            else:
                out.append((n, n, t))
        return out
    if not rets:
        ok, why = False, "no return"
    else:
        with_tf = sources_of(fa.prune({isnone: False}))
        without = sources_of(fa.prune({isnone: True}))
        if not any(is_tf(s_) for _, _, s_ in with_tf + sources_of(fa)):
            ok, why = False, "the post-cache transform is never applied to the returned sample"
        elif any(s_ in (raw, raw_attr) for _, _, s_ in with_tf):
            ok, why = False, "a path with a transform set returns the untransformed sample"
        elif any(is_tf(s_) for _, _, s_ in without):
            ok, why = False, "the transform is applied without checking that one is set"
        elif not all(is_tf(s_) for _, _, s_ in with_tf) or not all(s_ in (raw, raw_attr) for _, _, s_ in without):
            odd = [s_ for _, _, s_ in with_tf if not is_tf(s_)] + [s_ for _, _, s_ in without if s_ not in (raw, raw_attr)]
            ok, why = None, f"a return hands back {show(odd[0])[:60] if odd and odd[0] else '?'}: neither the cached sample nor its " \
                            f"transform (not decided)"
    rep.decide(ok, "G8.transform-after-cache", gi, "returned-value", why, why, clause="C19.3")
    stores = [(n, var) for n, var, val in fa.stores() if "." in var or var.endswith("[]")]
    rep.decide(not stores, "G8.transform-after-cache", gi, "no-store", "__getitem__ stores nothing",
               f"__getitem__ stores to {', '.join(v for _, v in stores)}: a transformed value can end up in the cache",
               clause="C19.3", nontrivial=False)
    # ---- the transform must not be able to reach the cached object ---------------------------------------------------------
    rep.rule("G8.transform-on-copy", "the object handed to the post-cache transform is not the object the cache keeps (or a view of "
             "its storage): either __getitem__ passes a copy (copy.deepcopy / copy.copy / .clone() / .copy()) to the transform, "
             "or every cache implementation stores / returns a copy.  A transform may work in place (x.mul_(..), normalisation "
             "with inplace=True); torch tensors put into a multiprocessing Manager dict share their storage with the stored "
             "entry, so an in-place transform would rewrite the cache and compound with every access")
    COPY = ("deepcopy", "copy", "clone")

    def is_copy(e) -> bool:
        return isinstance(e, ast.Call) and ((isinstance(e.func, ast.Attribute) and e.func.attr in COPY) or (
            isinstance(e.func, ast.Name) and e.func.id in COPY))
    tcalls = [(n, c) for n, c in fa.calls() if fa.sym.term(c.func, n) == tf and c.args]
    verdict, why_t = None, "no application of self.transform found"
    if tcalls:
        handed = [fa.expand(c.args[0], n) for n, c in tcalls]
        if all(is_copy(h) for h in handed):
            verdict, why_t = True, "the transform receives a copy of the cached sample"
        else:
            # the cached object itself travels to the transform: do the caches hand out copies?
            safe = bool(impls)
            for C in impls:
                cfa = fa_of(prog, C.methods["_cached_getitem"])
                stores_ = [val for n_, var, val in cfa.stores() if var.endswith("[]") and val is not None]
                rets_ = [cfa.ret_ast(n_)[0] for n_, t_ in cfa.returns()]
                stores_copy = bool(stores_) and all(is_copy(cfa.expand(v, 0) if False else v) for v in stores_)
                returns_copy = bool(rets_) and all(r is not None and is_copy(r) for r in rets_)
                safe = safe and (stores_copy or returns_copy)
            verdict = True if safe else False
            why_t = "every cache implementation stores / returns copies" if safe else (
                "CachedDataset.__getitem__ hands the object returned by _cached_getitem to self.transform as it is, and "
                f"{', '.join(C.name for C in impls)} stores and returns the loaded object itself: an in-place transform on a torch "
                "tensor sample rewrites the cached entry (tensors in a Manager dict share storage) - the second access returns "
                "transform(transform(x))")
    rep.decide(verdict, "G8.transform-on-copy", gi, "aliasing", why_t, why_t, clause="C19.3")
    ln = base.methods.get("__len__")
    if ln is not None:
        la = fa_of(prog, ln)
        r = [t for _, t in la.returns()]
        rep.decide(r == [("call", ("global", "len"), (("self", "dataset"),), ())], "G8.transform-after-cache", ln, "len",
                   "len(self.dataset)", f"__len__ returns {show(r[0]) if r and r[0] else '?'}", clause="C19.3",
                   nontrivial=False)
    # ---- attribute delegation must not re-enter itself ----------------------------------------------------------------
    rep.rule("G8.getattr-no-reentry", "__getattr__(self, item) of a cache class never looks the same name up on self again "
             "(getattr(self, item) / self.__getattribute__ is fine, but the plain look-up failed already - that is why __getattr__ "
             "runs): such a look-up re-enters __getattr__ without end.  The guard for the not-yet-initialised instance (copy / "
             "unpickling create the object before 'dataset' exists) has to go through super() or raise")
    for C in [base] + list(prog.subclasses(base, include_self=False)):
        ga = C.methods.get("__getattr__")
        if ga is None:
            continue
        ps = ga.params()
        if len(ps) < 2:
            continue
        rep.analysed_add("functions", f"{ga.module.relpath}:{ga.qualname}")
        bad = [y for y in ast.walk(ga.node) if isinstance(y, ast.Call) and isinstance(y.func, ast.Name) and y.func.id == "getattr"
               and len(y.args) >= 2 and isinstance(y.args[0], ast.Name) and y.args[0].id == ps[0]
               and isinstance(y.args[1], ast.Name) and y.args[1].id == ps[1]]
        rep.decide(not bad, "G8.getattr-no-reentry", ga, "self-lookup", "no look-up of the requested name on self",
                   f"getattr({ps[0]}, {ps[1]}) at line {bad[0].lineno if bad else 0} inside __getattr__ asks for the very attribute whose "
                   f"look-up just failed: unbounded recursion (RecursionError) for an instance without that attribute, e.g. the "
                   f"empty object copy / pickle create before the state is restored", line=bad[0].lineno if bad else ga.node.lineno,
                   clause="C19.2", nontrivial=False)
    names.check(prog, rep, FILES, clause="C19.G1", floor=8)
