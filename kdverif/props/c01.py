"""C01 - the mode string decides exactly which items a sample has, and in which order (DESIGN §4 C01)."""
from __future__ import annotations

import ast
from typing import Dict, List, Optional, Set, Tuple

from ..core import Report
from ..fa import FA, fa_of
from ..model import ClassInfo, FuncInfo, Program
from ..rules import names
from ..sym import Poly, Term, contains, leaves, negate, show, subterms, term_to_poly
from .c11 import declared_fused, projections

FILES = ["kappadata/wrappers/mode_wrapper.py", "kappadata/wrappers/torch_wrapper.py"]


def _n(e):
    return e.id if isinstance(e, ast.Name) else None


def run(prog: Program, rep: Report, tier: str):
    rep.trusted += ["Python sequence semantics of range(len(self))[slice] and list iteration",
                    "loaders (getitem_<item>) take (idx, ctx) and record per-sample facts in ctx only"]
    rep.not_decided += ["equality of the delivered values with the per-item loaders for every mode string and stack (the run-time "
                        "list manipulation of the fused-group detection is only checked for the order / pairing / scope rules below)",
                        "duplicate items in a mode, ordering of ctx.<key> items relative to the item that records the key"]
    MW = prog.cls("ModeWrapper")
    getitem(prog, rep, MW)
    constructor(prog, rep, MW)
    helpers(prog, rep, MW)
    # fused declarations anywhere in the package
    n_f = 0
    for C in sorted(prog.classes.values(), key=lambda c: c.qualname):
        if prog.is_dead(C.module) or "fused_operations" not in C.methods or C is MW:
            continue
        for g in declared_fused(prog, C):
            if len(g) == 2:
                n_f += 1
                projections(prog, rep, C, g[0], g[1], clause="C01.5")
    rep.floor("declared fused groups with projection methods", n_f, 2)
    names.check(prog, rep, FILES, clause="C01.7", floor=20)


# ----------------------------------------------------------------------------------------------------------------------
def _loader_sites(fa: FA) -> List[Tuple[int, ast.Call, int]]:
    """Calls of the element of a loop over self._getitem_fns: (node, call, loop next node)."""
    out = []
    cfg = fa.cfg
    for n, nd in cfg.nodes.items():
        if nd.kind == "next" and isinstance(nd.owner.target, ast.Name) and fa.sym.term(
                nd.owner.iter, cfg.stmt_node[nd.owner]) == ("self", "_getitem_fns"):
            v = nd.owner.target.id
            for m, c in fa.calls():
                if isinstance(c.func, ast.Name) and c.func.id == v and m in cfg.nodes_inside(nd.owner.body):
                    out.append((m, c, n))
    return out


def _name_closure(fa: FA, e: ast.AST, at: int, depth: int = 3) -> Set[str]:
    """names the expression is computed from, through the definitions of its locals (any right-hand side)"""
    out: Set[str] = set()
    work = [(e, at, depth)]
    while work:
        x, n, d = work.pop()
        for y in ast.walk(x):
            if isinstance(y, ast.Name) and isinstance(y.ctx, ast.Load) and y.id not in out:
                out.add(y.id)
                if d > 0:
                    for dn in fa.cfg.reaching().get(n, {}).get(y.id, ()):
                        v = fa.cfg.def_value(dn, y.id) if fa.cfg.nodes[dn].kind != "entry" else None
                        if v is not None:
                            work.append((v, dn, d - 1))
    return out


def _normalises(fa: FA, p: str, before: int, var_defs=None) -> bool:
    """'if p < 0: p = len(self) + p' lies before node ``before`` on every path that carries a negative p (p the index parameter,
    or - var_defs given - a loop variable with those definitions)."""
    cfg = fa.cfg
    P = ("param", p) if var_defs is None else ("var", p, var_defs)
    for n, var, val in fa.stores():
        if var != p or val is None:
            continue
        want = Poly.atom(("call", ("global", "len"), (("param", fa.self_name),), ())) + Poly.atom(P)
        wants = [want]
        # len(self) spelled through the class's own __len__ ('return len(self.dataset)')
        ln_ = fa.fi.cls.lookup("__len__") if fa.fi.cls is not None else None
        if ln_ is not None:
            b_ = [x_ for x_ in ln_.node.body if not (isinstance(x_, ast.Expr) and isinstance(x_.value, ast.Constant))]
            if len(b_) == 1 and isinstance(b_[0], ast.Return) and isinstance(b_[0].value, ast.Call) and \
                    isinstance(b_[0].value.func, ast.Name) and b_[0].value.func.id == "len" and len(b_[0].value.args) == 1 and \
                    isinstance(b_[0].value.args[0], ast.Attribute) and isinstance(b_[0].value.args[0].value, ast.Name) and \
                    b_[0].value.args[0].value.id == (ln_.params() or ["self"])[0]:
                wants.append(Poly.atom(("call", ("global", "len"), (("self", b_[0].value.args[0].attr),), ())) + Poly.atom(P))
        if term_to_poly(fa.sym.term(val, n)) not in wants:
            continue
        if ("lt", P) not in fa.conds_at(n):
            continue
        tests = [t_ for t_, lab in cfg.control_predicates(n) if fa.sym.term(cfg.nodes[t_].ast, t_) == ("lt", P)
                 and cfg.nodes[t_].kind == "test"]
        if tests and cfg.dominates(tests[-1], before):
            first = cfg.out_edge(tests[-1], True)
            if first == n or not cfg.reachable(first, before, avoid={n}):
                return True
    return False


def getitem(prog: Program, rep: Report, MW: ClassInfo):
    fi = MW.methods.get("__getitem__")
    rep.require(fi is not None, "anchor-missing: ModeWrapper.__getitem__")
    rep.rule("G8.ctx-fresh", "the context handed to the loaders of one sample is a dict created (display / dict()) in the same "
             "invocation as the loader loop, on every path on which a context is propagated (None otherwise); it is not taken "
             "from self, a global, a default argument or a closure, and is never stored into self; every loader receives "
             "(index, that context) in this order and the context returned with return_ctx is that object")
    rep.rule("G9.return-shape", "the items object is items[0] exactly when there is one item and tuple(items) otherwise; "
             "(items, ctx) is returned exactly on the paths with self.return_ctx true")
    rep.rule("G5.unfuse-pairing", "un-fusing: position table and loader results are traversed by one enumerate (entry i of "
             "fused_to_idxs meets result i); for a fused entry the j-th component of result i is stored at position "
             "fused_idxs[j] (one inner enumerate), for a plain entry result i is stored at that position")
    rep.rule("G6.index-forms", "a negative integer index is replaced by len(self) + idx before any loader sees it - in the function "
             "that runs the loader loop, or at every call site of that function; slices and index lists are served element-wise "
             "through self[i] (or a helper whose callers normalise)")
    # the function(s) that run the loader loop
    sites_by_fn: Dict[str, Tuple[FuncInfo, FA, list]] = {}
    for m in MW.methods.values():
        fa = fa_of(prog, m)
        s = _loader_sites(fa)
        if s:
            sites_by_fn[m.name] = (m, fa, s)
    rep.require(sites_by_fn, "anchor-missing: loop over self._getitem_fns")
    for name, (m, fa, sites) in sorted(sites_by_fn.items()):
        cfg = fa.cfg
        rep.analysed_add("functions", f"{m.module.relpath}:{m.qualname}")
        ps = m.params()
        for n, c, LN in sites:
            ok_args = len(c.args) == 2 and not c.keywords
            a0 = fa.sym.term(c.args[0], n) if c.args else None
            idx_ok = a0 is not None and (a0 == ("param", ps[1]) or (a0[0] == "var" and a0[1] == ps[1]))
            # the element-wise paths (slice / index list) may run the loaders in a loop of their own (helpers inlined): the index
            # is then the variable of a loop over something computed from the index parameter
            elem_loop = None
            if a0 is not None and not idx_ok and a0[0] == "var" and len(a0[2]) == 1:
                (d0,) = a0[2]
                if cfg.nodes[d0].kind == "next" and _n(cfg.nodes[d0].owner.target) == a0[1]:
                    it_names = _name_closure(fa, cfg.nodes[d0].owner.iter, cfg.stmt_node[cfg.nodes[d0].owner])
                    if ps[1] in it_names:
                        elem_loop = d0
                        idx_ok = True
            cv = _n(c.args[1]) if len(c.args) > 1 else None
            derived = (not idx_ok) and bool(c.args) and ps[1] in _name_closure(fa, c.args[0], n)
            rep.decide(None if (ok_args and derived and cv is not None) else (ok_args and idx_ok and cv is not None),
                       "G8.ctx-fresh", m, "loader-arguments",
                       "loader(idx, ctx) with the function's own index and the context variable",
                       "a loader is not called as loader(<own index>, <context variable>)", line=c.lineno, clause="C01.1")
            if cv is None:
                continue
            # definitions of the context variable reaching the loader call
            reach = cfg.reaching().get(n, {}).get(cv, set())
            problems = []
            for d in reach:
                if cfg.nodes[d].kind == "entry":
                    problems.append("the context is a parameter / default argument of the function")
                    continue
                val = cfg.def_value(d, cv)
                if val is None:
                    problems.append(f"context defined by an unrecognised statement at line {fa.line(d)}")
                    continue
                # (arm, polarity of self.propagate_ctx under which it is taken: True / False / None = unconditional or unknown)
                PC = ("self", "propagate_ctx")
                here = fa.conds_at(d, asserts=False)
                pol_d = True if PC in here else (False if ("not", PC) in here else None)
                if isinstance(val, ast.IfExp):
                    t = fa.sym.term(val.test, d)
                    if t == PC:
                        arms = [(val.body, True), (val.orelse, False)]
                    elif negate(t) == PC:
                        arms = [(val.body, False), (val.orelse, True)]
                    else:
                        arms = [(val.body, None), (val.orelse, None)]
                        problems.append("whether a context is created does not depend on self.propagate_ctx")
                else:
                    arms = [(val, pol_d)]
                    if len(reach) > 1 and pol_d is None:
                        problems.append("whether a context is created does not depend on self.propagate_ctx")
                for a, pol in arms:
                    fresh = (isinstance(a, ast.Dict) and not a.keys) or (
                        isinstance(a, ast.Call) and _n(a.func) == "dict" and not a.args and not a.keywords)
                    none = isinstance(a, ast.Constant) and a.value is None
                    if not (fresh or none):
                        problems.append(f"the context is {ast.unparse(a)} (line {fa.line(d)}), not a dict created in this call")
                    elif (none and pol is True) or (fresh and pol is False):
                        problems.append("a context is created exactly when none is to be propagated")
                if d in cfg.nodes_inside(cfg.nodes[LN].owner.body):
                    problems.append("the context is re-created inside the loader loop: later items do not see what earlier items "
                                    "recorded")
            if reach and not cfg.must_pass(set(reach), src=cfg.entry, dst=LN):
                problems.append("the context definition does not dominate the loader loop")
            problems = sorted(set(problems), key=problems.index)
            stored = [v for k, v, val in fa.stores(f"{fa.self_name}.") if val is not None and _n(val) == cv]
            if stored:
                problems.append(f"the context is stored into {stored[0]}: the next sample sees this sample's entries")
            rep.decide(not problems, "G8.ctx-fresh", m, "context-object", f"'{cv}' is a fresh dict per invocation (or None)",
                       "; ".join(problems), line=fa.line(min(reach)) if reach else m.node.lineno, clause="C01.1")
            # ---- negative index -------------------------------------------------------------------------------------
            if derived:
                continue  # an index computed from the parameter in another way: its normalisation is not decided here
            if elem_loop is not None:
                lp = cfg.nodes[elem_loop].owner
                it_e = lp.iter
                if isinstance(it_e, ast.Name):
                    ds_ = [d_ for d_ in cfg.reaching().get(cfg.stmt_node[lp], {}).get(it_e.id, ()) if cfg.nodes[d_].kind != "entry"]
                    if len(ds_) == 1 and cfg.def_value(ds_[0], it_e.id) is not None:
                        it_e = cfg.def_value(ds_[0], it_e.id)
                from_range = isinstance(it_e, ast.Subscript) and isinstance(it_e.value, ast.Call) and _n(it_e.value.func) == "range"
                in_loop_norm = _normalises(fa, a0[1], LN, var_defs=a0[2])
                rep.decide(from_range or in_loop_norm, "G6.index-forms", m, f"negative-index:elementwise@{'slice' if from_range else 'list'}",
                           "the elements are positions of range(len(self)) / normalised in the loop",
                           f"the loaders run for every element of {ast.unparse(lp.iter)[:40]} as it is: a negative entry of an index "
                           f"list reaches the loaders un-normalised ('index' reports it, index-seeded wrappers draw another "
                           f"sample)", line=fa.line(n), clause="C01.4")
                continue_site = True
            else:
                continue_site = False
            norm = _normalises(fa, ps[1], LN) if not continue_site else True
            if continue_site:
                pass
            elif norm:
                rep.ok("G6.index-forms", m, "negative-index", "idx < 0 -> len(self) + idx before the loader loop", clause="C01.4")
            else:
                bad = []
                callers = 0
                for k in MW.methods.values():
                    ka = fa_of(prog, k)
                    for cn, cc in ka.calls():
                        f = cc.func
                        if isinstance(f, ast.Attribute) and f.attr == m.name and _n(f.value) == ka.self_name and cc.args:
                            callers += 1
                            a = cc.args[0]
                            good = False
                            if isinstance(a, ast.Name):
                                kp = k.params()
                                if a.id in kp and _normalises(ka, a.id, cn):
                                    good = True
                                # comprehension variable over range(len(self))[...]
                                for comp in ast.walk(k.node):
                                    if isinstance(comp, (ast.ListComp, ast.GeneratorExp)) and any(y is cc for y in ast.walk(comp)):
                                        it = comp.generators[0].iter
                                        if isinstance(it, ast.Subscript) and isinstance(it.value, ast.Call) and _n(it.value.func) == "range":
                                            good = True
                            if not good:
                                bad.append(f"{k.qualname} line {cc.lineno}")
                if callers == 0 and m.name.startswith("_") and not m.name.startswith("__"):
                    # a private helper whose call sites were all inlined: its body is judged inside its callers
                    raw_MW = prog.raw.cls("ModeWrapper")
                    n_raw = sum(1 for k in raw_MW.methods.values() for x in ast.walk(k.node)
                                if isinstance(x, ast.Call) and isinstance(x.func, ast.Attribute) and x.func.attr == m.name
                                and isinstance(x.func.value, ast.Name))
                    if n_raw:
                        continue
                rep.decide(callers > 0 and not bad, "G6.index-forms", m, "negative-index",
                           "every caller passes a normalised / non-negative index",
                           f"{m.qualname} runs the loaders without normalising a negative index, and " + (
                               f"it is called with a possibly negative index at {', '.join(bad)}" if bad else "has no callers")
                           + ": the 'index' item and every index-seeded wrapper see the raw negative value", clause="C01.4")
        # ---- return shape ---------------------------------------------------------------------------------------------------
        rets = [(n, fa.ret_ast(n)[0]) for n, t in fa.returns() if any(cfg.reachable(LN, n) for _, _, LN in sites)]
        # element-wise paths collect the per-sample results in a list: there the per-sample result is what is appended
        agg = []
        elem_bodies = []
        for n_s, c_s, _LN in sites:
            a0_ = fa.sym.term(c_s.args[0], n_s) if c_s.args else None
            if a0_ is not None and a0_[0] == "var" and len(a0_[2]) == 1 and a0_[1] != ps[1]:
                (d0_,) = a0_[2]
                if cfg.nodes[d0_].kind == "next":
                    elem_bodies.append(cfg.nodes_inside(cfg.nodes[d0_].owner.body))
        for n_, c_ in fa.calls_named("append"):
            if not any(n_ in b_ for b_ in elem_bodies):
                continue
            if c_.args and isinstance(c_.args[0], ast.Name) and isinstance(c_.func.value, ast.Name):
                rv_name = c_.args[0].id
                lst_name = c_.func.value.id
                for d_ in cfg.reaching().get(n_, {}).get(rv_name, ()):
                    v_ = cfg.def_value(d_, rv_name) if cfg.nodes[d_].kind != "entry" else None
                    if v_ is not None and any(cfg.reachable(LN, d_) for _, _, LN in sites) and any(
                            _n(rv2) == lst_name for _r, rv2 in rets):
                        agg.append((d_, v_, lst_name))
        if agg:
            lists_ = {l_ for _, _, l_ in agg}
            rets = [(n_, rv_) for n_, rv_ in rets if _n(rv_) not in lists_] + [(d_, v_) for d_, v_, _ in agg]
        ok = bool(rets)
        why = "(items, ctx) iff self.return_ctx"
        for n, rv in rets:
            conds = fa.conds_at(n)
            pair = isinstance(rv, ast.Tuple) and len(rv.elts) == 2
            under = ("self", "return_ctx") in conds
            not_under = ("not", ("self", "return_ctx")) in conds
            if pair:
                cvs = {_n(c.args[1]) for _, c, _ in sites if len(c.args) > 1}
                if not under or _n(rv.elts[1]) not in cvs:
                    ok, why = False, "a pair is returned without return_ctx, or its second component is not the loaders' context"
            else:
                if not not_under:
                    ok, why = False, "the bare items object is returned although return_ctx may be set"
        rep.decide(ok, "G9.return-shape", m, "ctx-iff-requested", why, why, clause="C01.2")
        # items[0] iff one item, tuple otherwise
        single = [(n, val) for n, var, val in fa.stores() if val is not None and isinstance(val, ast.Subscript)
                  and isinstance(val.slice, ast.Constant) and val.slice.value == 0 and _n(val.value) == var]
        multi = [(n, val) for n, var, val in fa.stores() if val is not None and isinstance(val, ast.Call) and _n(val.func) == "tuple"
                 and val.args and _n(val.args[0]) == var]
        ok = None
        if single and multi:
            c1 = fa.conds_at(single[0][0])
            c2 = fa.conds_at(multi[0][0])
            v = single[0][1].value.id
            is_one = [c for c in c1 if c[0] == "eq" and any(x[0] == "call" and x[1] == ("global", "len") for x in subterms(c))
                      and term_to_poly(c[1]).terms.get((), 0) in (1, -1)]
            ok = bool(is_one) and negate(is_one[0]) in c2
            if not ok:
                # the decision may be a flag the constructor computed once: self._single = len(self.items) == 1
                flags = [c for c in c1 if c[0] == "self" and ("not", c) in c2]
                init = MW.methods.get("__init__")
                if flags and init is not None:
                    ia = fa_of(prog, init)
                    vals = [ia.sym.term(val, n_) for n_, var, val in ia.stores(f"{ia.self_name}.")
                            if var == f"{ia.self_name}.{flags[0][1]}" and val is not None]
                    good = [t_ for t_ in vals if t_[0] == "eq" and any(x[0] == "call" and x[1] == ("global", "len") for x in subterms(t_))
                            and term_to_poly(t_[1]).terms.get((), 0) in (1, -1)]
                    ok = True if (vals and len(good) == len(vals)) else None
        rep.decide(ok, "G9.return-shape", m, "bare-or-tuple", "items[0] iff len(items) == 1, tuple(items) otherwise",
                   "the single-item / tuple decision is not 'len(items) == 1'", clause="C01.2")
        # ---- un-fusing ------------------------------------------------------------------------------------------------------
        outer = [(n, nd) for n, nd in cfg.nodes.items() if nd.kind == "next" and fa.sym.term(
            nd.owner.iter, cfg.stmt_node[nd.owner]) == ("call", ("global", "enumerate"), (("self", "fused_to_idxs"),), ())]
        if len(outer) != 1:
            rep.unk("G5.unfuse-pairing", m, "outer-loop", "no 'for i, e in enumerate(self.fused_to_idxs)' loop found", clause="C01.3")
            continue
        ON, ond = outer[0]
        iv, ev = [_n(e) for e in ond.owner.target.elts] if isinstance(ond.owner.target, ast.Tuple) else (None, None)
        I = ("var", iv, frozenset({ON}))
        E = ("var", ev, frozenset({ON}))
        body = cfg.nodes_inside(ond.owner.body)
        stores = [(n, cfg.nodes[n].ast) for n in sorted(body) if cfg.nodes[n].kind == "stmt" and isinstance(cfg.nodes[n].ast, ast.Assign)
                  and isinstance(cfg.nodes[n].ast.targets[0], ast.Subscript)]
        seen = set()
        for n, st in stores:
            pos = fa.sym.term(st.targets[0].slice, n)
            val = fa.sym.term(st.value, n)
            inner = [t_ for t_, lab in cfg.control_predicates(n) if cfg.nodes[t_].kind == "next" and t_ != ON and lab is True
                     and t_ in body]
            if inner:
                IN = inner[-1]
                ind = cfg.nodes[IN]
                it = fa.sym.term(ind.owner.iter, cfg.stmt_node[ind.owner])
                jv, fv = [_n(e) for e in ind.owner.target.elts] if isinstance(ind.owner.target, ast.Tuple) else (None, None)
                J, Fv = ("var", jv, frozenset({IN})), ("var", fv, frozenset({IN}))
                ok = it == ("call", ("global", "enumerate"), (E,), ()) and pos == Fv and val[0] == "sub" and val[2] == J \
                    and val[1][0] == "sub" and val[1][2] == I
                seen.add("fused")
                rep.decide(ok, "G5.unfuse-pairing", m, "fused-entry", "unpacked[fused_idxs[j]] = items[i][j]",
                           f"a fused result is un-packed as unpacked[{show(pos)}] = {show(val)}: component j of result i does not "
                           f"go to position fused_idxs[j]", line=st.lineno, clause="C01.3")
            else:
                ok = pos == E and val[0] == "sub" and val[2] == I
                seen.add("plain")
                rep.decide(ok, "G5.unfuse-pairing", m, "plain-entry", "unpacked[position] = items[i]",
                           f"a plain result is stored as unpacked[{show(pos)}] = {show(val)}", line=st.lineno, clause="C01.3")
        rep.decide(seen == {"fused", "plain"}, "G5.unfuse-pairing", m, "both-kinds", "fused and plain entries are both handled",
                   "the un-fusing loop does not handle both fused and plain entries", clause="C01.3", nontrivial=False)
    # slices / lists recurse
    fa = fa_of(prog, fi)
    for n, t in fa.returns():
        rv = fa.ret_ast(n)[0]
        if isinstance(rv, ast.ListComp):
            elt = rv.elt
            rec = isinstance(elt, ast.Subscript) and _n(elt.value) == fa.self_name
            helper = isinstance(elt, ast.Call) and isinstance(elt.func, ast.Attribute) and _n(elt.func.value) == fa.self_name
            rep.decide(True if rec else (None if helper else False), "G6.index-forms", fi,
                       f"elementwise:{' '.join(ast.unparse(rv).split())[:60]}", "served element-wise through self[i]",
                       "a slice / index list is not served element-wise through self[i]", line=rv.lineno, clause="C01.4",
                       nontrivial=False)


def _fuse_kind(fa, e, at, depth=6):
    """What an expression of ModeWrapper.__init__ denotes, by data flow: 'groups' (the declared fused operations), 'group' (one
    of them), 'op' (a member name of a group), 'items' (the requested item list / a copy of it), 'item', or None."""
    ELEM = {"groups": "group", "group": "op", "items": "item"}
    if depth <= 0 or e is None:
        return None
    if isinstance(e, ast.Attribute):
        if e.attr == "fused_operations":
            return "groups"
        if e.attr == "items" and _n(e.value) == fa.self_name:
            return "items"
        return None
    if isinstance(e, ast.Subscript):
        if isinstance(e.slice, ast.Slice):
            return _fuse_kind(fa, e.value, at, depth - 1)
        return ELEM.get(_fuse_kind(fa, e.value, at, depth - 1))
    if isinstance(e, ast.Call):
        f = e.func
        if isinstance(f, ast.Name) and f.id in ("list", "tuple", "copy", "deepcopy", "sorted", "reversed") and e.args:
            return _fuse_kind(fa, e.args[0], at, depth - 1) if f.id not in ("sorted", "reversed") else None
        if isinstance(f, ast.Attribute) and f.attr == "copy" and not e.args:
            return _fuse_kind(fa, f.value, at, depth - 1)
        if isinstance(f, ast.Attribute) and f.attr == "split" and not isinstance(f.value, ast.Constant):
            return "items"
        if isinstance(f, ast.Name) and f.id == "next" and e.args and isinstance(e.args[0], (ast.GeneratorExp, ast.ListComp)):
            g = e.args[0]
            if len(g.generators) == 1 and isinstance(g.elt, ast.Name) and isinstance(g.generators[0].target, ast.Name) and \
                    g.elt.id == g.generators[0].target.id:
                return ELEM.get(_fuse_kind(fa, g.generators[0].iter, at, depth - 1))
        return None
    if isinstance(e, (ast.ListComp, ast.GeneratorExp)) and len(e.generators) == 1 and isinstance(e.elt, ast.Name) and \
            isinstance(e.generators[0].target, ast.Name) and e.elt.id == e.generators[0].target.id:
        return _fuse_kind(fa, e.generators[0].iter, at, depth - 1)  # a filtered copy keeps the order
    if isinstance(e, ast.Name):
        defs = fa.cfg.reaching().get(at, {}).get(e.id, ())
        kinds = set()
        for d in defs:
            nd = fa.cfg.nodes[d]
            if nd.kind == "next":
                it = nd.owner.iter
                tgt = nd.owner.target
                if isinstance(it, ast.Call) and _n(it.func) == "enumerate" and it.args:
                    if isinstance(tgt, ast.Tuple) and len(tgt.elts) == 2 and _n(tgt.elts[1]) == e.id:
                        kinds.add(ELEM.get(_fuse_kind(fa, it.args[0], fa.cfg.stmt_node[nd.owner], depth - 1)))
                    else:
                        kinds.add(None)
                elif _n(tgt) == e.id:
                    kinds.add(ELEM.get(_fuse_kind(fa, it, fa.cfg.stmt_node[nd.owner], depth - 1)))
                else:
                    kinds.add(None)
            elif nd.kind == "entry":
                kinds.add("items" if e.id == "items" else None)
            else:
                v = fa.cfg.def_value(d, e.id)
                kinds.add(_fuse_kind(fa, v, d, depth - 1) if v is not None else None)
        if len(kinds) == 1:
            return next(iter(kinds))
        return None
    return None


def _fuse_roles(fa):
    """local list variables that are stored into self.fused_items / self.fused_to_idxs (a helper-style constructor builds the
    lists locally and publishes them at the end): name -> attribute"""
    roles = {}
    for n_, var, val in fa.stores(f"{fa.self_name}."):
        a_ = var.split(".", 1)[1]
        if a_ in ("fused_items", "fused_to_idxs") and isinstance(val, ast.Name):
            roles[val.id] = a_
    return roles


def _fuse_role(fa, roles, e, n):
    r = fa.referent(e, n)
    if isinstance(r, ast.Attribute) and _n(r.value) == fa.self_name and r.attr in ("fused_items", "fused_to_idxs"):
        return r.attr
    if isinstance(r, ast.Name) and r.id in roles:
        return roles[r.id]
    if isinstance(e, ast.Name) and e.id in roles:
        return roles[e.id]
    return None


def fuse_lists_append_only(prog: Program, rep: Report, clause: str):
    """ModeWrapper.__init__: fused_items / fused_to_idxs are filled by appends only (shared by C01 and C11)."""
    MW = prog.cls("ModeWrapper")
    fi = MW.methods.get("__init__")
    if fi is None:
        return
    fa = fa_of(prog, fi)
    apps = {"fused_to_idxs": [], "fused_items": []}
    rep.rule("G5.fuse-bookkeeping", rep.rules.get("G5.fuse-bookkeeping", "ModeWrapper.__init__: the position table and the loader-name "
             "list are filled by paired appends in item order and never re-ordered or re-bound"))
    # the two lists grow by appends only: un-fusing writes the loader results in list order and the last writer of a position wins
    # (an item that is both requested on its own and part of a fused group must be overwritten by the fused result), so neither
    # list may be re-ordered or re-bound after the loop that fills them
    reorder = []
    roles = _fuse_roles(fa)
    local_binds = {}
    for n_, nd_ in fa.cfg.nodes.items():
        st_ = nd_.ast if nd_.kind == "stmt" else None
        if isinstance(st_, ast.Assign):
            for t_ in st_.targets:
                if isinstance(t_, ast.Name) and t_.id in roles:
                    local_binds.setdefault(t_.id, []).append((n_, st_.value))
        elif isinstance(st_, (ast.AugAssign, ast.AnnAssign)) and isinstance(st_.target, ast.Name) and st_.target.id in roles:
            local_binds.setdefault(st_.target.id, []).append((n_, st_))
    for v_, bs_ in local_binds.items():
        for n_, val in bs_:
            if not (isinstance(val, ast.List) and not val.elts):
                reorder.append((fa.line(n_), f"{v_} (published as self.{roles[v_]}) is re-bound"))
    for n_, var, val in fa.stores(f"{fa.self_name}."):
        a_ = var.split(".", 1)[1]
        if a_ in apps and not (isinstance(val, ast.List) and not val.elts):
            if isinstance(val, ast.Name) and val.id in roles and val.id in local_binds:
                continue  # publication of a locally built list (judged above)
            reorder.append((fa.line(n_), f"self.{a_} is re-bound"))
    for n_, c_ in fa.calls():
        if isinstance(c_.func, ast.Attribute) and c_.func.attr in ("sort", "reverse", "insert", "pop", "remove", "clear", "extend"):
            a_ = _fuse_role(fa, roles, c_.func.value, n_)
            if a_ in apps:
                reorder.append((fa.line(n_), f"self.{a_}.{c_.func.attr}(...)"))
    rep.decide(not reorder, "G5.fuse-bookkeeping", fi, "append-only", "position table and loader-name list are only appended to, in "
               "item order", "; ".join(f"{w} (line {ln})" for ln, w in reorder[:3]) + ": the order in which loader results are "
               "written back changes - an item requested on its own and as part of a fused group is no longer overwritten by the "
               "jointly loaded value", clause=clause)


def constructor(prog: Program, rep: Report, MW: ClassInfo, clause: str = "C01.3", fuse_only: bool = False):
    rep.rule("G5.fuse-bookkeeping", "ModeWrapper.__init__: the positions of a fused group are collected by iterating the declared "
             "group in declaration order (the order in which the fused loader returns its components), one position per "
             "member, looked up in the full item list; a group is fused whenever all its members occur anywhere in the mode "
             "(membership tested against the whole item list, not a part of it); every append to the position table is paired "
             "with exactly one append to the loader-name list in the same block; every item of the (fused) item list "
             "contributes exactly one loader, in item order")
    if not fuse_only:
      rep.rule("G9.ctx-key", "a 'ctx.<key>' item is recognised by item.startswith(P) and its key is the item with exactly that "
             "prefix P removed (item[len(P):], item[<len(P)>:] or removeprefix(P)); character-set stripping (lstrip / strip / "
             "replace) is not prefix removal")
    fi = MW.methods.get("__init__")
    rep.require(fi is not None, "anchor-missing: ModeWrapper.__init__")
    _for_else_complete(prog, rep, fi, clause)
    fa = fa_of(prog, fi)
    cfg = fa.cfg
    rep.analysed_add("functions", f"{fi.module.relpath}:{fi.qualname}")
    # paired appends
    apps = {"fused_to_idxs": [], "fused_items": []}
    roles = _fuse_roles(fa)
    for n, c in fa.calls_named("append"):
        a = _fuse_role(fa, roles, c.func.value, n)
        if a in apps:
            apps[a].append((n, c))
    ok = bool(apps["fused_to_idxs"]) and len(apps["fused_to_idxs"]) == len(apps["fused_items"])
    if ok:
        for (n1, c1) in apps["fused_to_idxs"]:
            mate = [n2 for n2, c2 in apps["fused_items"] if fa.conds_at(n2) == fa.conds_at(n1) and (
                cfg.reachable(n1, n2) or cfg.reachable(n2, n1))]
            if len(mate) != 1:
                ok = False
    rep.decide(ok, "G5.fuse-bookkeeping", fi, "paired-appends", "each position-table append has its loader-name append in the "
               "same block", "an append to fused_to_idxs is not paired with exactly one append to fused_items under the same "
               "conditions: loader results and position entries shift against each other", clause=clause)
    fuse_lists_append_only(prog, rep, clause=clause)
    # positions collected over the declared group, in declared order
    fused_app = [(n, c) for n, c in apps["fused_to_idxs"] if c.args and isinstance(c.args[0], ast.Name)
                 and any(isinstance(v, (ast.List, ast.ListComp)) for m_, var, v in fa.stores()
                         if var == c.args[0].id and v is not None)]
    ok = None
    why = "position collection of unrecognised shape"
    group_var = None
    if fused_app:
        n, c = fused_app[0]
        lst = c.args[0].id
        adds = [(m_, cc) for m_, cc in fa.calls_named("append") if _n(cc.func.value) == lst]
        if len(adds) == 1:
            an, ac = adds[0]
            loops = [t_ for t_, lab in cfg.control_predicates(an) if cfg.nodes[t_].kind == "next"]
            if loops:
                LN = loops[-1]
                lnd = cfg.nodes[LN]
                it = fa.sym.term(lnd.owner.iter, cfg.stmt_node[lnd.owner])
                opv = _n(lnd.owner.target)
                # which enclosing loop variable iterates the declared groups?
                outer = [t_ for t_ in loops[:-1] if cfg.nodes[t_].kind == "next"]
                decl = None
                for t_ in outer:
                    oit = fa.sym.term(cfg.nodes[t_].owner.iter, cfg.stmt_node[cfg.nodes[t_].owner])
                    if any(x[0] == "attr" and x[2] == "fused_operations" for x in subterms(oit)) or contains(
                            oit, ("self", "fused_operations")):
                        decl = ("var", _n(cfg.nodes[t_].owner.target), frozenset({t_}))
                group_var = decl
                # the appended value: index of the current member in the item list
                av = fa.sym.term(ac.args[0], an) if ac.args else None
                idx_of_member = False
                if av is not None:
                    srcs = [av]
                    if av[0] == "var":
                        srcs = [fa.sym.term(cfg.def_value(d, av[1]), d) for d in av[2] if cfg.def_value(d, av[1]) is not None]
                    idx_of_member = all(s[0] == "call" and s[1][0] == "attr" and s[1][2] == "index" and s[2] == (
                        ("var", opv, frozenset({LN})),) for s in srcs) and bool(srcs)
                over_decl = decl is not None and it == decl
                ok = over_decl and idx_of_member
                why = "positions are collected per member while iterating the declared group in order" if ok else (
                    f"the positions of a fused group are collected by iterating {show(it)[:60]}" + (
                        "" if over_decl else " instead of the declared group (declaration order is the order of the fused "
                                             "loader's components)") + ("" if idx_of_member else "; the collected value is not the "
                                                                         "member's position in the item list"))
    if fused_app and ok is None:
        # positions built by a comprehension: what does it iterate - the declared group or the item list?
        n, c = fused_app[0]
        lst = c.args[0].id
        for m_, var, v in fa.stores():
            if var == lst and isinstance(v, ast.ListComp) and len(v.generators) == 1:
                g = v.generators[0]
                it = g.iter
                if isinstance(it, ast.Call) and _n(it.func) == "enumerate" and it.args:
                    it = it.args[0]
                k = _fuse_kind(fa, it, m_)
                if k == "group":
                    ok, why = True, "positions are collected by a comprehension over the declared group"
                elif k == "items":
                    ok = False
                    why = (f"the positions of a fused group are collected by a comprehension over {ast.unparse(g.iter)} - i.e. in "
                           f"mode order - while the fused loader returns its components in declaration order: for a mode that "
                           f"lists the group's members in another order the components are swapped")
    rep.decide(ok, "G5.fuse-bookkeeping", fi, "declared-order", why, why, clause=clause)
    # membership test over the whole item list
    alls = [(n, c) for n, c in fa.calls() if _n(c.func) == "all" and c.args and isinstance(c.args[0], ast.GeneratorExp)]
    ok = None
    for n, c in alls:
        g = c.args[0]
        if isinstance(g.elt, ast.Compare) and len(g.elt.ops) == 1 and isinstance(g.elt.ops[0], ast.In):
            cont = g.elt.comparators[0]
            items_like = isinstance(cont, ast.Name)
            if isinstance(cont, (ast.Subscript,)):
                ok = False
            elif items_like and ok is None:
                ok = True
    rep.decide(ok, "G5.fuse-bookkeeping", fi, "membership-scope", "group membership is tested against the whole item list",
               "a group is only fused when its other members occur in a *part* of the item list (e.g. after the first member): "
               "modes that list the members in another order load them separately - two different draws for wrappers that "
               "sample per call", clause=clause)
    # one loader per item
    loops = [(n, nd) for n, nd in cfg.nodes.items() if nd.kind == "next" and any(
        fa.sym.term(c.func.value, m_)[:2] in (("self", "_getitem_fns"), ("var", "self._getitem_fns")) or (
            isinstance(c.func.value, ast.Attribute) and c.func.value.attr == "_getitem_fns")
        for m_, c in fa.calls_named("append") if m_ in cfg.nodes_inside(nd.owner.body))]
    if loops:
        LN, lnd = loops[-1]
        body = cfg.nodes_inside(lnd.owner.body)
        adds = {m_ for m_, c in fa.calls_named("append") if m_ in body and isinstance(c.func.value, ast.Attribute)
                and c.func.value.attr == "_getitem_fns"}
        entry = cfg.out_edge(LN, True)
        once = not cfg.reachable(entry, LN, avoid=adds, within=body) and not any(
            cfg.reachable(a, b, avoid={LN}, within=body) for a in adds for b in adds)
        rep.decide(once, "G5.fuse-bookkeeping", fi, "one-loader-per-item", "every item appends exactly one loader",
                   "an item can contribute no loader or two loaders: results and positions shift", clause=clause)
    if fuse_only:
        return
    # ctx key
    sw = [(n, c) for n, c in fa.calls_named("startswith") if c.args and isinstance(c.args[0], ast.Constant)
          and str(c.args[0].value).startswith("ctx")]
    for n, c in sw:
        prefix = c.args[0].value
        subj = _n(c.func.value)
        # the key: value bound to the ctx_key keyword of the partial / a local
        keys = [(m_, val) for m_, var, val in fa.stores() if val is not None and "key" in var and cfg.reachable(n, m_)]
        for m_, val in keys:
            ok = None
            if isinstance(val, ast.Subscript) and _n(val.value) == subj and isinstance(val.slice, ast.Slice) \
                    and val.slice.upper is None and val.slice.lower is not None:
                lo = fa.sym.term(val.slice.lower, m_)
                ok = lo == ("call", ("global", "len"), (("const", prefix),), ()) or lo == ("const", len(prefix))
            elif isinstance(val, ast.Call) and isinstance(val.func, ast.Attribute) and _n(val.func.value) == subj:
                if val.func.attr == "removeprefix":
                    ok = bool(val.args) and isinstance(val.args[0], ast.Constant) and val.args[0].value == prefix
                elif val.func.attr in ("lstrip", "strip", "replace", "rstrip"):
                    ok = False
            rep.decide(ok, "G9.ctx-key", fi, "prefix-removal", f"key = item without the prefix '{prefix}'",
                       f"the context key is computed as {ast.unparse(val)}: not the removal of exactly the tested prefix "
                       f"'{prefix}' (keys that begin with one of its characters are truncated)", line=val.lineno, clause="C01.6")


def helpers(prog: Program, rep: Report, MW: ClassInfo):
    rep.rule("G9.tokeniser", "the constructor and the static helpers has_item / get_item_index / get_item / set_item split the mode "
             "with the same separator; get_item returns batch[<index of item>] (the batch itself for a single-item mode), "
             "set_item replaces exactly that position; outside mode_wrapper.py nobody splits a mode string (TorchWrapper and the "
             "collators go through the helpers); the 'index' loader returns the index, the ctx loader returns ctx[key]")
    seps = {}
    for name in ("__init__", "has_item", "get_item_index", "get_item", "set_item", "add_item"):
        fi = MW.methods.get(name)
        if fi is None:
            continue
        fa = fa_of(prog, fi)
        for n, c in fa.calls_named("split"):
            t = fa.sym.term(c.func.value, n)
            if t == ("param", "mode"):
                seps.setdefault(name, set()).add(ast.unparse(c.args[0]) if c.args else "<whitespace>")
    allseps = set().union(*seps.values()) if seps else set()
    rep.floor("mode split sites in ModeWrapper", sum(len(v) for v in seps.values()), 4)
    rep.decide(len(allseps) == 1, "G9.tokeniser", MW, "one-separator", f"all split sites use {sorted(allseps)}",
               f"the mode is split with different separators: {seps}", clause="C01.6")
    # who may split
    offenders = []
    for rel, m in prog.by_relpath.items():
        if rel == MW.module.relpath or prog.is_dead(m):
            continue
        for y in ast.walk(m.tree):
            if isinstance(y, ast.Call) and isinstance(y.func, ast.Attribute) and y.func.attr == "split" \
                    and isinstance(y.func.value, (ast.Name, ast.Attribute)) and "mode" in ast.unparse(y.func.value).lower() \
                    and "mode_" not in ast.unparse(y.func.value).lower():
                # the same tokenisation spelled out (the one separator ModeWrapper itself uses) yields the same items
                sep_ = ast.unparse(y.args[0]) if y.args else "<whitespace>"
                if len(allseps) == 1 and sep_ in allseps and not y.keywords and len(y.args) == 1:
                    continue
                offenders.append(f"{rel}:{y.lineno}")
    rep.decide(not offenders, "G9.tokeniser", MW, "who-may-split", "only mode_wrapper.py tokenises mode strings",
               f"mode strings are tokenised outside ModeWrapper at {', '.join(offenders[:4])}", clause="C01.6")
    mode_positions(prog, rep, MW, "C01.6")
    gi = MW.methods.get("get_item")
    if gi is not None:
        fa = fa_of(prog, gi)
        rets = [(n, t) for n, t in fa.returns() if t is not None]
        ok = any(t[0] == "sub" and t[1] == ("param", "batch") and (contains(t[2], ("param", "item"))) for n, t in rets) and all(
            t == ("param", "batch") or (t[0] == "sub" and t[1] == ("param", "batch")) for n, t in rets)
        rep.decide(ok, "G9.tokeniser", gi, "get_item", "batch[index of item]", "get_item does not return batch[<index of item>]",
                   clause="C01.6")
    si = MW.methods.get("set_item")
    if si is not None:
        fa = fa_of(prog, si)
        rets = [t for n, t in fa.returns() if t is not None]
        ok = len(rets) == 1 and rets[0][0] == "call" and rets[0][1] == ("global", "tuple") and rets[0][2] and rets[0][2][0][0] == "comp"
        if not ok:
            ok = None  # written some other way (explicit loop, list surgery): not decided here
        if ok:
            comp = rets[0][2][0]
            elt = comp[2]
            ok = elt[0] == "ifexp" and contains(comp[3], ("param", "batch")) and (
                (elt[1][0] == "ne" and elt[3] == ("param", "value")) or (elt[1][0] == "eq" and elt[2] == ("param", "value")))
        rep.decide(ok, "G9.tokeniser", si, "set_item", "tuple with exactly the item's position replaced by value",
                   "set_item does not replace exactly the position of the item", clause="C01.6")
    for name, want in (("_getitem_index", "param0"), ("_getitem_from_ctx", "ctx")):
        f = MW.methods.get(name)
        if f is None:
            continue
        fa = fa_of(prog, f)
        rets = [t for n, t in fa.returns() if t is not None]
        ps = f.params()
        if want == "param0":
            ok = rets == [("param", ps[0])]
        else:
            ok = len(rets) == 1 and rets[0][0] == "sub" and rets[0][1] == ("param", ps[1]) and rets[0][2] == ("param", ps[2])
            if not ok and rets and len(ps) > 2:
                # another look-up scheme (nested keys, fall-backs): every returned value is still read out of the context with a
                # key computed from the key argument -> not decided; anything else is a definite violation
                from ..deps import Deps
                dp = Deps(fa, control=False)
                rooted = all(("param", ps[1]) in dp.of_term(t_) and ("param", ps[2]) in dp.of_term(t_) for t_ in rets)
                ok = None if rooted else False
        rep.decide(ok, "G9.tokeniser", f, "builtin-loader", "returns the index / ctx[key]",
                   f"{name} does not return {'its index argument' if want == 'param0' else 'ctx[ctx_key]'}", clause="C01.6",
                   nontrivial=False)
    # TorchWrapper goes through the helpers and returns batch[item_idx] of the wrapped dataset's own sample
    TW = prog.cls("TorchWrapper", required=False)
    if TW is not None and "_getitem" in TW.methods:
        f = TW.methods["_getitem"]
        fa = fa_of(prog, f)
        rep.analysed_add("functions", f"{f.module.relpath}:{f.qualname}")
        rets = [t for n, t in fa.returns() if t is not None]
        ps = f.params()
        ok = len(rets) == 1 and rets[0][0] == "sub" and rets[0][2] == ("param", "item_idx") and \
            rets[0][1] == ("sub", ("self", "dataset"), ("param", ps[1]))
        rep.decide(ok, "G9.tokeniser", f, "torch-wrapper", "dataset[idx][item_idx]",
                   "TorchWrapper._getitem does not return component item_idx of the wrapped dataset's sample idx", clause="C01.6")
        ga = TW.methods.get("__getattr__")
        if ga is not None:
            ga_fa = fa_of(prog, ga)
            idxs = [c for n, c in ga_fa.calls_named("get_item_index")]
            # ... or the helper's own definition spelled out: <mode>.split(<the separator>).index(item)
            idxs += [c for n, c in ga_fa.calls_named("index") if isinstance(c.func.value, ast.Call)
                     and isinstance(c.func.value.func, ast.Attribute) and c.func.value.func.attr == "split"
                     and len(c.func.value.args) == 1 and ast.unparse(c.func.value.args[0]) in allseps and len(allseps) == 1]
            rep.decide(bool(idxs), "G9.tokeniser", ga, "torch-wrapper-index", "position from ModeWrapper.get_item_index",
                       "TorchWrapper computes item positions without ModeWrapper.get_item_index", clause="C01.6", nontrivial=False)


def mode_positions(prog: Program, rep: Report, MW: ClassInfo, clause: str):
    """positions are positions in the item list, never in the mode string"""
    rep.rule("G9.mode-positions", "the mode helpers of ModeWrapper (has_item, get_item_index, get_item, set_item, add_item) compute "
             "an item's position / presence on the tokenised mode (mode.split(sep)), never on the mode string itself: "
             "'mode.index(item)' is a character offset and 'item in mode' a substring test ('x' is found in 'index')")
    n = 0
    for name in ("has_item", "get_item_index", "get_item", "set_item", "add_item"):
        f = MW.methods.get(name)
        if f is None:
            continue
        fa = fa_of(prog, f)
        bad = []
        for m, c in fa.calls():
            if isinstance(c.func, ast.Attribute) and c.func.attr in ("index", "find", "count") and \
                    fa.sym.term(c.func.value, m) == ("param", "mode"):
                bad.append((c.lineno, f"mode.{c.func.attr}(...)"))
        for m in fa.cfg.nodes:
            for y in fa.cfg.walk_node(m):
                if isinstance(y, ast.Compare) and len(y.ops) == 1 and isinstance(y.ops[0], (ast.In, ast.NotIn)) and \
                        isinstance(y.comparators[0], ast.Name) and fa.sym.term(y.comparators[0], m) == ("param", "mode"):
                    bad.append((y.lineno, "'... in mode'"))
        n += 1
        rep.decide(not bad, "G9.mode-positions", f, "on-the-item-list", "positions are taken on the tokenised mode",
                   "; ".join(f"{w} at line {ln}" for ln, w in bad[:3]) + ": computed on the mode string, i.e. a character offset / "
                   "substring test - right only for the first item", line=bad[0][0] if bad else f.node.lineno, clause=clause,
                   nontrivial=False)
    if n == 0:
        rep.unk("G9.mode-positions", MW, "helpers", "no mode helper found", clause=clause)


def _for_else_complete(prog: Program, rep: Report, fi, clause: str):
    """'for group in groups: ... break' with an else clause that registers the plain item: a break that is not preceded by the
    fused registration leaves the item without any entry."""
    fa = fa_of(prog, fi)
    cfg = fa.cfg

    def appended(stmts):
        out = set()
        for st in stmts:
            for y in ast.walk(st):
                if isinstance(y, ast.Call) and isinstance(y.func, ast.Attribute) and y.func.attr == "append":
                    out.add(" ".join(ast.unparse(y.func.value).split()))
        return out

    def own_breaks(loop):
        out = []

        def walk(stmts):
            for st in stmts:
                if isinstance(st, ast.Break):
                    out.append(st)
                elif isinstance(st, (ast.For, ast.While, ast.FunctionDef, ast.ClassDef)):
                    continue
                else:
                    for fld in ("body", "orelse", "finalbody"):
                        walk(getattr(st, fld, []) or [])
                    for h in getattr(st, "handlers", []) or []:
                        walk(h.body)
        walk(loop.body)
        return out

    for loop in [x for x in ast.walk(fi.node) if isinstance(x, ast.For) and x.orelse]:
        lists = appended(loop.orelse)
        brs = own_breaks(loop)
        if not lists or not brs:
            continue
        nxt = next((n for n, nd in cfg.nodes.items() if nd.kind == "next" and nd.owner is loop), None)
        if nxt is None:
            continue
        body_entry = cfg.out_edge(nxt, True)
        bad = []
        for b in brs:
            bn = cfg.stmt_node.get(b)
            if bn is None or body_entry is None:
                continue
            for lst in sorted(lists):
                apps = {n for n, c in fa.calls() if isinstance(c.func, ast.Attribute) and c.func.attr == "append"
                        and " ".join(ast.unparse(c.func.value).split()) == lst and n in cfg.nodes_inside(loop.body)}
                if not apps or not cfg.must_pass(apps, src=body_entry, dst=bn):
                    bad.append((b.lineno, lst))
        rep.decide(not bad, "G5.fuse-bookkeeping", fi, f"for-else:{' '.join(ast.unparse(loop.iter).split())[:40]}",
                   "the search loop is left early only after the entry was registered; otherwise its else clause registers the item",
                   "; ".join(f"the break at line {ln} can be reached without an append to {lst}" for ln, lst in bad[:3]) +
                   ": the else clause, which registers the plain item, is skipped - the item ends up with no entry (no loader, its "
                   "position stays None)", line=bad[0][0] if bad else loop.lineno, clause=clause)
